import BpProofs.Gen.SrcLoad
import BpProofs.SrcTie
import BpProofs.RtPacked
import BpProofs.Rt
/-
  TIE between the translated per-record step of `Message.load` (`Src.load_record`,
  BpProofs/Gen/SrcLoad.lean, regenerated from the Python AST on every run by
  harness/extract_srcload.py) and the model's `applyField` (BpModel/Load.lean).
-/
namespace Bp.SrcTieLoad
open Bp Bp.Py Gen

/-! ### the shape of the translated function

  `Src.load_record` is generated text in which the statements after an `if` / `try` are
  duplicated into every branch.  `fitsTest`, `afterCurrent`, `storeSrc` below are those
  repeated pieces written once; `load_record_shape` (proved by `rfl`, so whatever the local
  variables of the source are called) says the generated function is made of them. -/

/-- `parsed.wire_type != WIRE_TYPE_BY_PROTO_TYPE[meta.proto_type] and not (parsed.wire_type ==
    WIRE_LEN_DELIM and meta.proto_type in PACKED_TYPES and proto_meta.default_gen[field_name] is list)` -/
def fitsTest (d : MsgD) (fn : Option Nat) (meta' : FieldD) (parsed : PField) : Res Bool :=
  (Py.wireTypeByProtoType (Py.metaProtoType meta')).bind fun t2 =>
    if (decide ((Py.parsedWireType parsed) ≠ t2)) then
      ((if (decide ((Py.parsedWireType parsed) = (2 : Int))) then
        if (Gen.packedTypes.contains (Py.metaProtoType meta')) then
          (Py.defaultGenIsList d fn).bind fun t3 =>
          .ok t3
        else .ok false
      else .ok false)).bind fun t4 =>
      .ok (!t4)
    else .ok false

/-- the statements after the `try` -/
def afterCurrent (S : Schema) (d : MsgD) (meta' : FieldD) (fn : Option Nat) (value : Val) (self : MState) : Res MState :=
  if ((Py.metaProtoType meta') == PType.map) then
    (Py.entryValue value).bind fun a =>
    (Py.entryKey value).bind fun b =>
    (Py.slotSetItem self fn b a).bind fun self =>
    .ok self
  else
    if (Py.isList (Py.slotVal self fn)) then
      if (Py.isList value) then
        (Py.slotExtend self fn (Py.listItems value)).bind fun self =>
        .ok self
      else
        (Py.slotAppend self fn value).bind fun self =>
        .ok self
    else
      (Py.setattrSelf S d self fn value).bind fun self =>
      .ok self

/-- `try: current = getattr(self, field_name) / except AttributeError: current = default; setattr` and
    what follows -/
def storeSrc (S : Schema) (d : MsgD) (meta' : FieldD) (fn : Option Nat) (value : Val) (self : MState) : Res MState :=
  Py.tryExceptAttr (Py.getattrSelf S d self fn)
    ((Py.getFieldDefault S d fn).bind fun cur =>
      (Py.setattrSelf S d self fn cur).bind fun self =>
      afterCurrent S d meta' fn value self)
    (fun self => afterCurrent S d meta' fn value self)

theorem load_record_shape (fuel : Nat) (S : Schema) (rec : Loader) (d : MsgD) (self : MState) (parsed : PField) :
    Src.load_record fuel S rec d self parsed =
      (let fn := Py.fieldNameByNumber d (Py.parsedNumber parsed)
       if (!(Py.truthyName fn)) then .ok (Py.unknownAppend self (Py.parsedRaw parsed))
       else
        (Py.metaByFieldName d fn).bind fun meta' =>
        (fitsTest d fn meta' parsed).bind fun t5 =>
        if t5 then .ok (Py.unknownAppend self (Py.parsedRaw parsed))
        else
          if ((decide ((Py.parsedWireType parsed) = (2 : Int))) && (Gen.packedTypes.contains (Py.metaProtoType meta'))) then
            (Src.load_record.loop1 fuel S rec d self parsed fn meta' (0 : Int) ([] : List Val)).bind fun c =>
            match c with
            | .ret r => .ok r
            | .next (_, value) => storeSrc S d meta' fn (Val.list value) self
          else
            (Py.postprocessSingle S rec (Py.parsedWireType parsed) meta' (Py.parsedValue parsed)).bind fun value =>
            storeSrc S d meta' fn value self) := rfl


/-! ### bookkeeping -/

theorem ofR_bind {α β : Type} (x : R α) (g : α → R β) : ofR (x.bind g) = (ofR x).bind fun a => ofR (g a) := by
  cases x <;> rfl

@[simp] theorem ok_bind {α β : Type} (a : α) (g : α → Res β) : (Res.ok a).bind g = g a := rfl
@[simp] theorem raise_bind {α β : Type} (e : PyErr) (g : α → Res β) : (Res.raise e : Res α).bind g = .raise e := rfl
@[simp] theorem bind_ok {α : Type} (x : Res α) : (x.bind fun a => .ok a) = x := by cases x <;> rfl

/-- every proto type has a row in the regenerated `WIRE_TYPE_BY_PROTO_TYPE`, with a wire type of 0 / 1 / 2 / 5;
    the packable types are not length-delimited, `map` is, and is not packable -/
theorem wt_table (t : PType) :
    ∃ w, Gen.wireTypeByProtoType.find? (·.1 == t) = some (t, w) ∧ (w = 0 ∨ w = 1 ∨ w = 2 ∨ w = 5)
      ∧ (isPacked t = true → w ≠ 2) ∧ (t = .map → w = 2 ∧ isPacked t = false) := by
  cases t <;> exact ⟨_, rfl, by decide, by decide, by decide⟩

theorem fieldNameByNumber_eq (d : MsgD) (pf : PField) :
    Py.fieldNameByNumber d (Py.parsedNumber pf) = findField d.fields pf.num := by
  have : ¬ ((pf.num : Int) < 0) := by omega
  simp [Py.fieldNameByNumber, this]

/-! ### the wire-type test -/

theorem fitsTest_eq (d : MsgD) (idx : Nat) (f : FieldD) (pf : PField) (hd : d.fields[idx]? = some f) :
    fitsTest d (some idx) f pf = .ok (!wireFits f pf.wt) := by
  obtain ⟨w, hfind, _, _, _⟩ := wt_table f.ty
  unfold fitsTest wireFits Py.wireTypeByProtoType Py.defaultGenIsList Py.metaByFieldName
  simp only [hfind, hd, ok_bind, Py.metaProtoType, Py.parsedWireType]
  have e1 : ((pf.wt : Int) ≠ (w : Int)) ↔ pf.wt ≠ w := by omega
  have e2 : ((pf.wt : Int) = 2) ↔ pf.wt = 2 := by omega
  simp only [e1, e2]
  by_cases h1 : pf.wt = w
  · simp [h1]
  · by_cases h2 : pf.wt = 2
    · have hw2 : ¬ (2 = w) := fun h => h1 (h2.trans h)
      cases hp : Gen.packedTypes.contains f.ty <;> cases hr : f.repeated <;>
        simp_all [isPacked, wireLenDelim]
    · simp [h1, h2, wireLenDelim]


/-! ### current value, then store -/

/-- what `append` / `extend` add to the list in the slot -/
def elems : Val → List Val
  | .list ys => ys
  | y => [y]

theorem storeValue_list (S : Schema) (d : MsgD) (st : MState) (idx : Nat) (f : FieldD) (v : Val) (xs : List Val)
    (hm : (f.ty == PType.map) = false) (hc : st.slots.getD idx .ph = .list xs) :
    storeValue S d st idx f v = .ok { st with slots := setAt st.slots idx (.list (xs ++ elems v)) } := by
  unfold storeValue
  dsimp only
  rw [if_neg (by simp [hm])]
  split
  · rename_i xs' hc'
    rw [hc] at hc'
    injection hc' with hc'
    subst hc'
    split
    · rfl
    · rename_i hv
      have : elems v = [v] := by
        cases v <;> first | rfl | exact absurd rfl (hv _)
      rw [this]
  · rename_i hne
    exact absurd hc (hne xs)

theorem storeValue_map (S : Schema) (d : MsgD) (st : MState) (idx : Nat) (f : FieldD) (k v : Val)
    (hm : (f.ty == PType.map) = true) :
    storeValue S d st idx f (.dict [k] [v]) =
      match st.slots.getD idx .ph with
      | .dict ks vs => .ok { st with slots := setAt st.slots idx (.dict (dictInsert ks vs k v).1 (dictInsert ks vs k v).2) }
      | _ => .error .type := by
  unfold storeValue
  dsimp only
  rw [if_pos hm]
  split
  · rename_i ks vs k' v' hc hv
    injection hv with h1 h2
    injection h1 with h1 _
    injection h2 with h2 _
    subst h1; subst h2
    rw [hc]
  · rename_i hne
    split
    · rename_i ks vs hc
      exact absurd rfl (hne ks vs k v hc)
    · rfl

theorem slotExtend_list (st : MState) (idx : Nat) (xs ys : List Val) (hc : st.slots.getD idx .ph = .list xs) :
    Py.slotExtend st (some idx) ys = .ok { st with slots := setAt st.slots idx (.list (xs ++ ys)) } := by
  simp only [Py.slotExtend, hc]

/-- the statements after the `try` are the model's `storeValue` (`hmap`: for a map field the decoded
    value is an `Entry`, which is what `_postprocess_single` returns for it) -/
theorem afterCurrent_eq (S : Schema) (d : MsgD) (f : FieldD) (idx : Nat) (value : Val) (st : MState)
    (hmap : f.ty = .map → ∃ k v, value = .dict [k] [v]) :
    afterCurrent S d f (some idx) value st = ofR (storeValue S d st idx f value) := by
  unfold afterCurrent
  by_cases hm : f.ty = .map
  · obtain ⟨k, v, rfl⟩ := hmap hm
    have hm' : (f.ty == PType.map) = true := by simp [hm]
    rw [storeValue_map S d st idx f k v hm']
    simp only [Py.metaProtoType, hm, beq_self_eq_true, if_true, Py.entryValue, Py.entryKey, ok_bind, Py.slotSetItem]
    cases st.slots.getD idx .ph <;> simp [ofR]
  · have hm' : (f.ty == PType.map) = false := by simpa using hm
    simp only [Py.metaProtoType, hm', Bool.false_eq_true, if_false]
    rw [show Py.slotVal st (some idx) = st.slots.getD idx .ph from rfl]
    by_cases hl : Py.isList (st.slots.getD idx .ph) = true
    · obtain ⟨xs, hc⟩ : ∃ xs, st.slots.getD idx .ph = Val.list xs := by
        revert hl; cases st.slots.getD idx .ph <;> simp [Py.isList]
      rw [if_pos hl, storeValue_list S d st idx f value xs hm' hc]
      cases value <;>
        simp [Py.isList, slotExtend_list st idx xs _ hc, Py.slotAppend, Py.listItems, ofR, elems]
    · have hne : ∀ xs, st.slots.getD idx .ph ≠ Val.list xs := by
        intro xs h; rw [h] at hl; exact hl rfl
      rw [if_neg hl, storeValue_nonlist S d st idx f value hm' hne]
      simp [Py.setattrSelf, ofR]

/-- `try: current = getattr(…) / except AttributeError: …` and the store are the model's `prepCurrent`
    followed by `storeValue` -/
theorem storeSrc_eq (S : Schema) (d : MsgD) (f : FieldD) (idx : Nat) (value : Val) (st : MState)
    (hd : d.fields[idx]? = some f) (hmap : f.ty = .map → ∃ k v, value = .dict [k] [v]) :
    storeSrc S d f (some idx) value st = ofR (storeValue S d (prepCurrent S d st idx f) idx f value) := by
  unfold storeSrc prepCurrent Py.getattrSelf Py.getFieldDefault Py.metaByFieldName
  simp only [hd, ok_bind]
  cases hh : hidden f idx st.cur
  · simp only [Bool.false_eq_true, if_false, Py.tryExceptAttr]
    exact afterCurrent_eq S d f idx value _ hmap
  · simp only [if_true, Py.tryExceptAttr, Py.setattrSelf, ok_bind]
    exact afterCurrent_eq S d f idx value _ hmap


/-! ### decoding the value: a single value -/

/-- a wire type that fits is one of 0 / 1 / 2 / 5 -/
theorem wireFits_wt (f : FieldD) (wt : Nat) (h : wireFits f wt = true) : wt = 0 ∨ wt = 1 ∨ wt = 2 ∨ wt = 5 := by
  obtain ⟨w, hfind, hw, _, _⟩ := wt_table f.ty
  unfold wireFits at h
  simp only [hfind, Bool.or_eq_true, Bool.and_eq_true, beq_iff_eq, wireLenDelim] at h
  omega

/-- outside the packed case, `_postprocess_single(parsed.wire_type, meta, field_name, parsed.value)` is the
    model's `decodeValue` -/
theorem postprocess_eq (S : Schema) (rec : Loader) (f : FieldD) (pf : PField) (hfit : wireFits f pf.wt = true)
    (hnp : ((decide ((Py.parsedWireType pf) = (2 : Int))) && (Gen.packedTypes.contains f.ty)) = false) :
    Py.postprocessSingle S rec (Py.parsedWireType pf) f (Py.parsedValue pf) = ofR (decodeValue S rec f pf) := by
  have hp : pf.wt = 2 → isPacked f.ty = false := by
    intro h2
    have e2 : ((pf.wt : Int) = 2) := by omega
    simpa [Py.parsedWireType, e2, isPacked] using hnp
  unfold decodeValue Py.postprocessSingle Py.parsedValue
  simp only [Py.parsedWireType, wireVarint, wireFixed32, wireFixed64, wireLenDelim]
  rcases wireFits_wt f pf.wt hfit with h | h | h | h <;> simp only [h]
  · simp [ofR]
  · simp
  · have hp' := hp h
    by_cases hm : f.ty = .map
    · rw [hm] at hp'
      simp [hm, hp', Py.postEntryR]
    · simp [hm, hp']
  · simp

/-- … and for a map field it is an `Entry` -/
theorem postprocess_entry (S : Schema) (rec : Loader) (f : FieldD) (pf : PField) (hfit : wireFits f pf.wt = true)
    (hm : f.ty = .map) (value : Val) (h : decodeValue S rec f pf = .ok value) : ∃ k v, value = .dict [k] [v] := by
  obtain ⟨w, hfind, _, _, hmap⟩ := wt_table f.ty
  obtain ⟨hw2, hnp⟩ := hmap hm
  have hwt : pf.wt = 2 := by
    unfold wireFits at hfit
    simp only [hfind, hnp, hw2, Bool.and_false, Bool.false_and, Bool.or_false, beq_iff_eq] at hfit
    exact hfit
  unfold decodeValue at h
  rw [hm] at hnp
  simp only [hwt, hm, hnp, wireLenDelim, wireVarint, wireFixed32, wireFixed64, Bool.and_false, Bool.false_eq_true,
    if_false, beq_self_eq_true, if_true, Nat.reduceBEq, Bool.or_self] at h
  cases hr : rec (entryD f) (freshState (entryD f)) pf.payload with
  | error e => rw [hr] at h; cases h
  | ok est =>
    rw [hr] at h
    simp only [Except.bind] at h
    injection h with h
    exact ⟨_, _, h.symm⟩


/-! ### decoding the value: the loop over a packed payload -/

theorem slice_take (p : Bytes) (pos : Nat) (hi : Int) (h : pos ≤ p.length) (h2 : (pos : Int) ≤ hi) :
    Py.slice p (pos : Int) hi = (p.drop pos).take (hi.toNat - pos) := by
  have a : ¬ ((pos : Int) < 0) := by omega
  have b : ¬ (hi < 0) := by omega
  unfold Py.slice Py.sliceIdx
  simp only [a, b, if_false, Int.toNat_natCast]
  rw [Nat.min_eq_left h, List.take_eq_take_iff]
  simp only [List.length_drop]
  omega

theorem postprocess_fixed32 (S : Schema) (rec : Loader) (f : FieldD) (q : Bytes) :
    Py.postprocessSingle S rec (5 : Int) f (.bytes q) = ofR (postFixed f.ty q) := by
  simp [Py.postprocessSingle, wireVarint, wireFixed32]

theorem postprocess_fixed64 (S : Schema) (rec : Loader) (f : FieldD) (q : Bytes) :
    Py.postprocessSingle S rec (1 : Int) f (.bytes q) = ofR (postFixed f.ty q) := by
  simp [Py.postprocessSingle, wireVarint, wireFixed32, wireFixed64]

theorem postprocess_varint (S : Schema) (rec : Loader) (f : FieldD) (n : Nat) :
    Py.postprocessSingle S rec (0 : Int) f (.int (n : Int)) = .ok (postVarint f.ty n) := by
  simp [Py.postprocessSingle, wireVarint]

/-- **the `while pos < len(parsed.value)` loop is the model's `decodePackedFuel`** on the rest of the payload:
    it raises what the model raises, or ends with the values decoded so far followed by the model's -/
theorem packed_loop (S : Schema) (rec : Loader) (d : MsgD) (st : MState) (pf : PField) (fn : Option Nat) (f : FieldD)
    (hw : WfBytes pf.payload) :
    ∀ (n pos : Nat) (acc : List Val) (fuel : Nat), pf.payload.length - pos ≤ n → n + 12 ≤ fuel →
      ∃ q : Int, Src.load_record.loop1 fuel S rec d st pf fn f (pos : Int) acc =
        match decodePackedFuel f.ty (n + 1) (pf.payload.drop pos) with
        | .error e => .raise e
        | .ok vs => .ok (.next (q, acc ++ vs)) := by
  intro n
  induction n with
  | zero =>
    intro pos acc fuel hn hf
    obtain ⟨fuel, rfl⟩ : ∃ k, fuel = k + 1 := ⟨fuel - 1, by omega⟩
    have hnil : pf.payload.drop pos = [] := List.drop_eq_nil_of_le (by omega)
    have hc : ¬ ((pos : Int) < Py.len (Py.parsedBytes pf)) := by simp only [Py.len, Py.parsedBytes]; omega
    refine ⟨(pos : Int), ?_⟩
    rw [hnil, decodePackedFuel_nil]
    unfold Src.load_record.loop1
    simp [hc]
  | succ m ih =>
    intro pos acc fuel hn hf
    obtain ⟨fuel, rfl⟩ : ∃ k, fuel = k + 1 := ⟨fuel - 1, by omega⟩
    by_cases hlt : pos < pf.payload.length
    · have hne : pf.payload.drop pos ≠ [] := by
        intro h; have := congrArg List.length h; simp only [List.length_drop, List.length_nil] at this; omega
      have hc : ((pos : Int) < Py.len (Py.parsedBytes pf)) := by simp only [Py.len, Py.parsedBytes]; omega
      rw [decodePackedFuel_ne _ _ _ hne]
      unfold Src.load_record.loop1
      simp only [hc, decide_true, if_true, Py.metaProtoType, Py.parsedBytes]
      by_cases h32 : (f.ty == PType.float || f.ty == PType.fixed32 || f.ty == PType.sfixed32) = true
      · simp only [h32, if_true]
        rw [slice_take _ _ _ (by omega) (by omega), show ((pos : Int) + 4).toNat - pos = 4 by omega, postprocess_fixed32]
        cases hpf : postFixed f.ty ((pf.payload.drop pos).take 4) with
        | error e => exact ⟨0, rfl⟩
        | ok v =>
          obtain ⟨q, hq⟩ := ih (pos + 4) (acc ++ [v]) fuel (by omega) (by omega)
          refine ⟨q, ?_⟩
          simp only [ofR, ok_bind, Except.bind]
          rw [show ((pos : Int) + 4) = ((pos + 4 : Nat) : Int) by push_cast; rfl, hq, List.drop_drop]
          cases decodePackedFuel f.ty (m + 1) (List.drop (pos + 4) pf.payload) <;> simp
      · simp only [h32, Bool.false_eq_true, if_false]
        by_cases h64 : (f.ty == PType.double || f.ty == PType.fixed64 || f.ty == PType.sfixed64) = true
        · simp only [h64, if_true]
          rw [slice_take _ _ _ (by omega) (by omega), show ((pos : Int) + 8).toNat - pos = 8 by omega, postprocess_fixed64]
          cases hpf : postFixed f.ty ((pf.payload.drop pos).take 8) with
          | error e => exact ⟨0, rfl⟩
          | ok v =>
            obtain ⟨q, hq⟩ := ih (pos + 8) (acc ++ [v]) fuel (by omega) (by omega)
            refine ⟨q, ?_⟩
            simp only [ofR, ok_bind, Except.bind]
            rw [show ((pos : Int) + 8) = ((pos + 8 : Nat) : Int) by push_cast; rfl, hq, List.drop_drop]
            cases decodePackedFuel f.ty (m + 1) (List.drop (pos + 8) pf.payload) <;> simp
        · simp only [h64, Bool.false_eq_true, if_false]
          rw [SrcTie.decode_varint_eq pf.payload hw pos fuel (by omega)]
          unfold decodeVarint
          cases hlv : loadVarint (pf.payload.drop pos) with
          | error e => exact ⟨0, rfl⟩
          | ok r =>
            obtain ⟨v, k⟩ := r
            have hk := loadVarint_consumed _ v k hlv
            simp only [List.length_drop] at hk
            obtain ⟨q, hq⟩ := ih (pos + k) (acc ++ [postVarint f.ty v]) fuel (by omega) (by omega)
            refine ⟨q, ?_⟩
            simp only [ok_bind, postprocess_varint, hq, List.drop_drop]
            cases decodePackedFuel f.ty (m + 1) (List.drop (pos + k) pf.payload) <;> simp [Except.bind]
    · have hnil : pf.payload.drop pos = [] := List.drop_eq_nil_of_le (by omega)
      have hc : ¬ ((pos : Int) < Py.len (Py.parsedBytes pf)) := by simp only [Py.len, Py.parsedBytes]; omega
      refine ⟨(pos : Int), ?_⟩
      rw [hnil, decodePackedFuel_nil]
      unfold Src.load_record.loop1
      simp [hc]


/-! ### the whole iteration -/

/-- **the body of the record loop of `Message.load` as written is the model's `applyField`**: for every
    schema, class, state of the instance and record whose payload consists of bytes, with fuel for one round of
    the `while` loop per payload byte (plus the varint loop inside), the translated body returns exactly the
    state `applyField` returns, or raises exactly the exception it raises. -/
theorem load_record_eq (S : Schema) (rec : Loader) (d : MsgD) (st : MState) (pf : PField)
    (hw : WfBytes pf.payload) (fuel : Nat) (hf : pf.payload.length + 12 ≤ fuel) :
    Src.load_record fuel S rec d st pf = ofR (applyField S rec d st pf) := by
  rw [load_record_shape]
  unfold applyField
  simp only [fieldNameByNumber_eq, Py.parsedRaw]
  cases hfind : findField d.fields pf.num with
  | none => simp [Py.truthyName, Py.unknownAppend, ofR]
  | some idx =>
    simp only [Py.truthyName, Option.isSome_some, Bool.not_true, Bool.false_eq_true, if_false, Py.metaByFieldName]
    cases hd : d.fields[idx]? with
    | none => simp [ofR]
    | some f =>
      simp only [ok_bind, fitsTest_eq d idx f pf hd]
      cases hfit : wireFits f pf.wt with
      | false => simp [Py.unknownAppend, ofR]
      | true =>
        simp only [Bool.not_true, Bool.false_eq_true, if_false, ofR_bind]
        cases hpk : ((decide ((Py.parsedWireType pf) = (2 : Int))) && (Gen.packedTypes.contains (Py.metaProtoType f)))
        · -- a single value
          simp only [Bool.false_eq_true, if_false]
          rw [postprocess_eq S rec f pf hfit hpk]
          cases hdv : decodeValue S rec f pf with
          | error e => rfl
          | ok value =>
            simp only [ofR, ok_bind]
            exact storeSrc_eq S d f idx value st hd (fun hm => postprocess_entry S rec f pf hfit hm value hdv)
        · -- a packed chunk
          simp only [if_true]
          have e2 : ((pf.wt : Int) = 2) ↔ pf.wt = 2 := by omega
          simp only [Py.parsedWireType, Py.metaProtoType, e2, Bool.and_eq_true, decide_eq_true_eq] at hpk
          obtain ⟨hwt, hp⟩ := hpk
          have hp' : isPacked f.ty = true := hp
          have hdv : decodeValue S rec f pf = (decodePacked f.ty pf.payload).bind fun vs => .ok (Val.list vs) := by
            unfold decodeValue
            simp [hwt, hp', wireLenDelim]
          obtain ⟨q, hq⟩ := packed_loop S rec d st pf (some idx) f hw pf.payload.length 0 [] fuel (by omega) hf
          rw [show ((0 : Nat) : Int) = 0 from rfl] at hq
          rw [hq, hdv, List.drop_zero]
          unfold decodePacked
          cases decodePackedFuel f.ty (pf.payload.length + 1) pf.payload with
          | error e => rfl
          | ok vs =>
            simp only [ofR, ok_bind, List.nil_append, Except.bind]
            refine storeSrc_eq S d f idx (Val.list vs) st hd (fun hm => ?_)
            obtain ⟨_, _, _, _, hmap⟩ := wt_table f.ty
            rw [(hmap hm).2] at hp'
            cases hp'


/-! ### the guard, and the reading of `parsed.value`, hold of every record `load_fields` yields -/

/-- what `loadField` puts into a record: the payload bytes are bytes of the input; a varint record has no payload
    bytes and every other record has no decoded varint (so `Py.parsedValue`, which picks one of the two by the wire
    type, loses nothing of the `ParsedField`) -/
theorem loadField_payload (bs : Bytes) (pf : PField) (rest : Bytes) (h : loadField bs = .ok (pf, rest)) :
    (∀ x ∈ pf.payload, x ∈ bs) ∧ (pf.wt = wireVarint → pf.payload = []) ∧ (pf.wt ≠ wireVarint → pf.vint = 0)
      ∧ pf.payload.length ≤ bs.length := by
  unfold loadField at h
  split at h
  · simp at h
  · rename_i numWire k hk
    split at h
    · simp at h
    · split at h
      · simp at h
      · rename_i v p c hp
        simp only [Except.ok.injEq, Prod.mk.injEq] at h
        obtain ⟨h1, _⟩ := h
        subst h1
        simp only
        unfold loadPayload at hp
        by_cases h0 : numWire % 8 = wireVarint
        · simp only [h0, beq_self_eq_true, if_true] at hp
          split at hp
          · simp at hp
          · simp only [Except.ok.injEq, Prod.mk.injEq] at hp
            obtain ⟨_, hp2, _⟩ := hp
            subst hp2
            exact ⟨by simp, fun _ => rfl, fun hc => absurd h0 hc, by simp⟩
        · have e0 : (numWire % 8 == wireVarint) = false := by simpa using h0
          simp only [e0, Bool.false_eq_true, if_false] at hp
          have sub : ∀ (n m : Nat) (x : Nat), x ∈ ((bs.drop n).take m) → x ∈ bs :=
            fun n m x hx => List.mem_of_mem_drop (List.mem_of_mem_take hx)
          have sublen : ∀ (n m : Nat), ((bs.drop n).take m).length ≤ bs.length := by
            intro n m; simp only [List.length_take, List.length_drop]; omega
          split at hp
          · split at hp
            · simp at hp
            · simp only [Except.ok.injEq, Prod.mk.injEq] at hp
              obtain ⟨hv, hp2, _⟩ := hp
              subst hp2; subst hv
              exact ⟨sub k 8, fun hc => absurd hc h0, fun _ => rfl, sublen k 8⟩
          · split at hp
            · split at hp
              · simp at hp
              · rename_i len k2 _
                split at hp
                · simp at hp
                · simp only [Except.ok.injEq, Prod.mk.injEq] at hp
                  obtain ⟨hv, hp2, _⟩ := hp
                  subst hp2; subst hv
                  refine ⟨fun x hx => ?_, fun hc => absurd hc h0, fun _ => rfl, ?_⟩
                  · rw [List.drop_drop] at hx
                    exact sub _ _ x hx
                  · rw [List.drop_drop]; exact sublen _ _
            · split at hp
              · split at hp
                · simp at hp
                · simp only [Except.ok.injEq, Prod.mk.injEq] at hp
                  obtain ⟨hv, hp2, _⟩ := hp
                  subst hp2; subst hv
                  exact ⟨sub k 4, fun hc => absurd hc h0, fun _ => rfl, sublen k 4⟩
              · simp at hp

theorem raw_sub_join (pfs : List PField) (pf : PField) (h : pf ∈ pfs) :
    (∀ x ∈ pf.raw, x ∈ joinRaw pfs) ∧ pf.raw.length ≤ (joinRaw pfs).length := by
  induction pfs with
  | nil => simp at h
  | cons q qs ih =>
    simp only [joinRaw, List.mem_append, List.length_append]
    rcases List.mem_cons.mp h with h | h
    · subst h; exact ⟨fun x hx => Or.inl hx, by omega⟩
    · exact ⟨fun x hx => Or.inr ((ih h).1 x hx), by have := (ih h).2; omega⟩

/-- the guard of `load_record_eq` / `loadLoop_eq` (decidable): the payload consists of bytes, and the fuel covers it -/
def RecOk (fuel : Nat) (pf : PField) : Prop := WfBytes pf.payload ∧ pf.payload.length + 12 ≤ fuel

instance (fuel : Nat) (pf : PField) : Decidable (RecOk fuel pf) := by unfold RecOk WfBytes; infer_instance

/-- every record the framing yields for an input made of bytes has a payload made of bytes, no longer than the
    input (the guard of `load_record_eq`), and carries either a varint or payload bytes, by its wire type -/
theorem loadFields_payload_wf (bs : Bytes) (hw : WfBytes bs) (pfs : List PField) (h : loadFields bs = .ok pfs) :
    ∀ pf ∈ pfs, RecOk (bs.length + 12) pf ∧ (pf.wt = wireVarint → pf.payload = []) ∧ (pf.wt ≠ wireVarint → pf.vint = 0) := by
  intro pf hpf
  obtain ⟨bs', rest, hl⟩ := loadFields_parsed bs pfs h pf hpf
  have hl' := loadField_prefix bs' pf rest hl []
  obtain ⟨hsub, h0, h1, hlen⟩ := loadField_payload _ _ _ hl'
  have hj := raw_sub_join pfs pf hpf
  rw [(loadFields_raw bs pfs h).1] at hj
  rw [List.append_nil] at hsub hlen
  exact ⟨⟨fun x hx => hw x (hj.1 x (hsub x hx)), by have := hj.2; omega⟩, h0, h1⟩

/-! ### the loop around the body -/

/-- `for parsed in <records>: <body>`: the translated body run on the records in order (an exception ends the loop) -/
def loadLoop (fuel : Nat) (S : Schema) (rec : Loader) (d : MsgD) : MState → List PField → Res MState
  | st, [] => .ok st
  | st, pf :: pfs => (Src.load_record fuel S rec d st pf).bind fun st' => loadLoop fuel S rec d st' pfs

theorem loadLoop_eq (S : Schema) (rec : Loader) (d : MsgD) (fuel : Nat) (pfs : List PField)
    (hall : ∀ pf ∈ pfs, RecOk fuel pf) (st : MState) :
    loadLoop fuel S rec d st pfs = ofR (foldFields S rec d st pfs) := by
  induction pfs generalizing st with
  | nil => rfl
  | cons pf pfs ih =>
    have h := hall pf (by simp)
    simp only [loadLoop, foldFields, load_record_eq S rec d st pf h.1 fuel h.2, ofR_bind]
    cases applyField S rec d st pf with
    | error e => rfl
    | ok st' => exact ih (fun q hq => hall q (by simp [hq])) st'

end Bp.SrcTieLoad
