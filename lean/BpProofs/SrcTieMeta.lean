import BpProofs.Gen.SrcMeta
import BpProofs.SrcTieEnum
import BpModel.Ok
/-
  THE TIE BETWEEN THE TRANSLATED CLASS METADATA AND THE LOOKUPS THE MODEL / THE OTHER PRELUDES USE.

  `Bp.SrcMeta.ProtoClassMetadata.init` (BpProofs/Gen/SrcMeta.lean) is regenerated from the Python AST of
  `ProtoClassMetadata.__init__` on every run.  This file proves, for EVERY list of field descriptors:
    * it returns (never raises);
    * `meta_by_field_name` is literally the fields in declaration order, keyed by name;
    * `oneof_group_by_field.get(name)` is the group of the field (`Py.oneofGroupByField`);
    * `field_name_by_number.get(n)` is the model's `findField fs n` — the LAST field declaring the number;
    * `oneof_field_by_group.get(g)` is the list of members of `g` in declaration order (`Py.oneofFieldByGroup`),
      absent exactly when the group has no member;
    * `sorted_field_names` lists, for the distinct numbers in ascending order, the field that owns the
      number; with pairwise distinct numbers it is a permutation of all field names;
    * `default_gen[name]` is `genOf f`, the generator `_get_field_default_gen` picks for the annotation of `f`.
  What is trusted: BpProofs/PyPreludeMeta.lean.
-/
set_option linter.unusedSimpArgs false
set_option linter.unusedVariables false
namespace Bp.SrcTieMeta
open Bp Bp.PyEnum Bp.EnumM Bp.PyMeta Bp.SrcTieEnum
open Bp.Py (Res ofR)

@[simp] theorem res_bind_ok {α β} (a : α) (f : α → Res β) : (Res.ok a).bind f = f a := rfl
@[simp] theorem res_bind_raise {α β} (e : PyErr) (f : α → Res β) : (Res.raise e : Res α).bind f = .raise e := rfl

/-! ### association lists -/

theorem assoc_append {κ β : Type} [DecidableEq κ] (k : κ) (l₁ l₂ : List (κ × β)) :
    assoc k (l₁ ++ l₂) = match assoc k l₁ with | some b => some b | none => assoc k l₂ := by
  induction l₁ with
  | nil => simp [assoc]
  | cons hd tl ih =>
    obtain ⟨k1, b1⟩ := hd
    by_cases h : k = k1 <;> simp [assoc, h, ih]

theorem dictGet_eq {κ β : Type} [DecidableEq κ] (d : List (κ × β)) (k : κ) : PyEnum.dictGet d k = assoc k d := rfl

theorem dictItem_some {κ β : Type} [DecidableEq κ] (d : List (κ × β)) (k : κ) (b : β) (h : assoc k d = some b) :
    dictItem d k = .ok b := by simp [dictItem, h]

theorem dictItem_none {κ β : Type} [DecidableEq κ] (d : List (κ × β)) (k : κ) (h : assoc k d = none) :
    dictItem d k = .raise .key := by simp [dictItem, h]

theorem keyIn_eq {κ β : Type} [DecidableEq κ] (d : List (κ × β)) (k : κ) : keyIn k d = (assoc k d).isSome := rfl

/-- `d.setdefault(k, set()).add(x)`: the set under `k` (empty when absent) gets `x`; other keys untouched -/
theorem assoc_setdefaultAdd (d : Dict Nat (List Field)) (k g : Nat) (x : Field) :
    assoc g (dictSetdefaultAdd d k x) = if g = k then some (setAdd ((assoc k d).getD []) x) else assoc g d := by
  unfold dictSetdefaultAdd dictSetdefault
  cases h : assoc k d with
  | some s => simp [assoc_dictSet]
  | none =>
    simp only [assoc_dictSet, assoc_append, Option.getD_none]
    by_cases hg : g = k
    · simp [hg]
    · simp [hg, assoc]
      cases assoc g d <;> simp [Ne.symm hg, hg]

theorem assoc_setdefaultNone {β : Type} (d : Dict Nat (Option β)) (k g : Nat) :
    assoc g (dictSetdefaultNone d k) = if g = k then some ((assoc k d).getD Option.none) else assoc g d := by
  unfold dictSetdefaultNone dictSetdefault
  cases h : assoc k d with
  | some s =>
    by_cases hg : g = k
    · simp [hg, h]
    · simp [hg]
  | none =>
    simp only [assoc_append, Option.getD_none]
    by_cases hg : g = k
    · simp [hg, h, assoc]
    · cases h2 : assoc g d <;> simp [hg, assoc]

/-! ### `dataclasses.fields(cls)` -/

theorem enumFrom_length (fs : List FieldD) : ∀ i, (enumFrom i fs).length = fs.length := by
  induction fs with
  | nil => intro i; rfl
  | cons f fs ih => intro i; simp [enumFrom, ih]

theorem assoc_enumFrom (fs : List FieldD) : ∀ (i k : Nat),
    assoc k (enumFrom i fs) = if i ≤ k then fs[k - i]? else Option.none := by
  induction fs with
  | nil => intro i k; simp [enumFrom, assoc]
  | cons f fs ih =>
    intro i k
    simp only [enumFrom, assoc, ih]
    by_cases h : k = i
    · subst h; simp
    · by_cases h2 : i ≤ k
      · have h3 : i + 1 ≤ k := by omega
        have h4 : k - i = (k - (i + 1)) + 1 := by omega
        simp [h, h2, h3, h4]
      · have h3 : ¬ i + 1 ≤ k := by omega
        simp [h, h2, h3]

theorem assoc_dataclassFields (fs : List FieldD) (k : Nat) : assoc k (dataclassFields fs) = fs[k]? := by
  simp [dataclassFields, assoc_enumFrom]

/-! ### the field loop of `ProtoClassMetadata.__init__`, one dict at a time -/

def Lbf : List Field → Dict Nat Nat → Dict Nat Nat
  | [], d => d
  | p :: xs, d => Lbf xs (match p.2.group with | some g => dictSet d p.1 g | Option.none => d)
def Lbg : List Field → Dict Nat (List Field) → Dict Nat (List Field)
  | [], d => d
  | p :: xs, d => Lbg xs (match p.2.group with | some g => dictSetdefaultAdd d g p | Option.none => d)
def Lbn : List Field → Dict Nat FieldD → Dict Nat FieldD
  | [], d => d
  | p :: xs, d => Lbn xs (dictSet d p.1 p.2)
def Lnum : List Field → Dict Nat Nat → Dict Nat Nat
  | [], d => d
  | p :: xs, d => Lnum xs (dictSet d p.2.num p.1)

theorem init_loop : ∀ (xs : List Field) (bf : Dict Nat Nat) (bg : Dict Nat (List Field)) (bn : Dict Nat FieldD) (bnum : Dict Nat Nat),
    SrcMeta.ProtoClassMetadata.init.loop1 xs (bf, bg, bn, bnum) = .ok (Lbf xs bf, Lbg xs bg, Lbn xs bn, Lnum xs bnum)
  | [], _, _, _, _ => rfl
  | p :: xs, bf, bg, bn, bnum => by
    rw [SrcMeta.ProtoClassMetadata.init.loop1]
    simp only [fieldMetadataGet, fieldName]
    cases h : p.2.group with
    | none => simp only [res_bind_ok, init_loop xs, Lbf, Lbg, Lbn, Lnum, h]
    | some g => simp only [res_bind_ok, init_loop xs, Lbf, Lbg, Lbn, Lnum, h]

/-! #### `field_name_by_number`: last declaration wins -/

theorem assoc_Lnum (n : Nat) : ∀ (fs : List FieldD) (i : Nat) (d : Dict Nat Nat),
    assoc n (Lnum (enumFrom i fs) d) = findField.go n fs i (assoc n d)
  | [], i, d => by simp [enumFrom, Lnum, findField.go]
  | f :: fs, i, d => by
    simp only [enumFrom, Lnum, findField.go]
    rw [assoc_Lnum n fs (i + 1), assoc_dictSet]
    by_cases h : n = f.num
    · subst h; simp
    · have : (f.num == n) = false := by simp [Ne.symm h]
      simp [h, this]

/-! #### `meta_by_field_name`: the fields, in order -/

theorem Lbn_eq : ∀ (fs : List FieldD) (i : Nat) (d : Dict Nat FieldD), (∀ k, i ≤ k → assoc k d = none) →
    Lbn (enumFrom i fs) d = d ++ enumFrom i fs
  | [], i, d, _ => by simp [enumFrom, Lbn]
  | f :: fs, i, d, h => by
    simp only [enumFrom, Lbn]
    rw [dictSet_absent d i f (h i (Nat.le_refl i)), Lbn_eq fs (i + 1)]
    · simp
    · intro k hk
      rw [assoc_append, h k (by omega)]
      have : ¬ k = i := by omega
      simp [assoc, this]

/-! #### `oneof_group_by_field` -/

theorem assoc_Lbf (k : Nat) : ∀ (fs : List FieldD) (i : Nat) (d : Dict Nat Nat), (∀ k', i ≤ k' → assoc k' d = none) →
    assoc k (Lbf (enumFrom i fs) d) = if i ≤ k then (fs[k - i]?).bind (·.group) else assoc k d
  | [], i, d, h => by
    by_cases hk : i ≤ k <;> simp [enumFrom, Lbf, hk, h k]
  | f :: fs, i, d, h => by
    simp only [enumFrom, Lbf]
    have hd1 : ∀ k', i + 1 ≤ k' → assoc k' (match f.group with | some g => dictSet d i g | Option.none => d) = none := by
      intro k' hk'
      cases f.group with
      | none => exact h k' (by omega)
      | some g =>
        have : ¬ k' = i := by omega
        simp [assoc_dictSet, this, h k' (by omega)]
    rw [assoc_Lbf k fs (i + 1) _ hd1]
    by_cases hk : k = i
    · subst hk
      have : ¬ k + 1 ≤ k := by omega
      simp only [this, if_false, Nat.le_refl, if_true, Nat.sub_self, List.getElem?_cons_zero, Option.bind_some]
      cases f.group with
      | none => exact h k (Nat.le_refl k)
      | some g => simp [assoc_dictSet]
    · by_cases h2 : i ≤ k
      · have h3 : i + 1 ≤ k := by omega
        have h4 : k - i = (k - (i + 1)) + 1 := by omega
        simp [h2, h3, h4]
      · have h3 : ¬ i + 1 ≤ k := by omega
        simp only [h2, h3, if_false]
        cases f.group with
        | none => rfl
        | some g => simp [assoc_dictSet, hk]

/-! #### `oneof_field_by_group` -/

/-- the members of group `g` among the fields `fs`, the first of which has index `j` (the same function as
    `Py.membersFrom` of PyPreludeObj.lean, which this file does not import: `Props/C06SrcMeta.membersFrom_eq`) -/
def membersFrom (g : Nat) : List FieldD → Nat → List (Nat × FieldD)
  | [], _ => []
  | f :: fs, j => if f.group == some g then (j, f) :: membersFrom g fs (j + 1) else membersFrom g fs (j + 1)

theorem setAdd_new (s : List Field) (x : Field) (h : ∀ y ∈ s, y.1 < x.1) : setAdd s x = s ++ [x] := by
  unfold setAdd
  have : s.any (fun y => y.1 == x.1) = false := by
    rw [List.any_eq_false]
    intro y hy
    have := h y hy
    simp; omega
  simp [this]

theorem membersFrom_lt (g : Nat) : ∀ (fs : List FieldD) (i : Nat), ∀ y ∈ membersFrom g fs i, i ≤ y.1
  | [], _ => by simp [membersFrom]
  | f :: fs, i => by
    intro y hy
    unfold membersFrom at hy
    split at hy
    · rcases List.mem_cons.mp hy with h | h
      · subst h; exact Nat.le_refl _
      · have := membersFrom_lt g fs (i + 1) y h; omega
    · have := membersFrom_lt g fs (i + 1) y hy; omega

/-- the members of `g` are appended, in declaration order, to what the dict held for `g` -/
theorem assoc_Lbg (g : Nat) : ∀ (fs : List FieldD) (i : Nat) (d : Dict Nat (List Field)),
    (∀ s, assoc g d = some s → ∀ y ∈ s, y.1 < i) →
    assoc g (Lbg (enumFrom i fs) d) =
      match membersFrom g fs i with
      | [] => assoc g d
      | m :: ms => some ((assoc g d).getD [] ++ m :: ms)
  | [], i, d, _ => by simp [enumFrom, Lbg, membersFrom]
  | f :: fs, i, d, h => by
    simp only [enumFrom, Lbg]
    cases hg : f.group with
    | none =>
      have hne : (f.group == some g) = false := by simp [hg]
      simp only [membersFrom, hne]
      exact assoc_Lbg g fs (i + 1) d (fun s hs y hy => Nat.lt_succ_of_lt (h s hs y hy))
    | some g' =>
      simp only
      by_cases hgg : g' = g
      · subst hgg
        have hm : membersFrom g' (f :: fs) i = (i, f) :: membersFrom g' fs (i + 1) := by simp [membersFrom, hg]
        have hnew : setAdd ((assoc g' d).getD []) (i, f) = (assoc g' d).getD [] ++ [(i, f)] := by
          apply setAdd_new
          intro y hy
          cases hd : assoc g' d with
          | none => simp [hd] at hy
          | some s => rw [hd] at hy; exact h s hd y hy
        have hd1 : assoc g' (dictSetdefaultAdd d g' (i, f)) = some ((assoc g' d).getD [] ++ [(i, f)]) := by
          rw [assoc_setdefaultAdd, if_pos rfl, hnew]
        rw [assoc_Lbg g' fs (i + 1) _ (by
          intro s hs y hy
          rw [hd1] at hs; injection hs with hs; subst hs
          rcases List.mem_append.mp hy with hy | hy
          · cases hd : assoc g' d with
            | none => simp [hd] at hy
            | some s => rw [hd] at hy; exact Nat.lt_succ_of_lt (h s hd y hy)
          · simp at hy; subst hy; exact Nat.lt_succ_self _), hm, hd1]
        cases membersFrom g' fs (i + 1) <;> simp
      · have hne : (f.group == some g) = false := by simp [hg, hgg]
        have hd1 : assoc g (dictSetdefaultAdd d g' (i, f)) = assoc g d := by
          rw [assoc_setdefaultAdd, if_neg (fun e => hgg e.symm)]
        simp only [membersFrom, hne]
        rw [assoc_Lbg g fs (i + 1) _ (by
          intro s hs y hy
          rw [hd1] at hs
          exact Nat.lt_succ_of_lt (h s hs y hy)), hd1]
        rfl

/-! ### type hints, `_get_field_default_gen`, `_cls_for` -/

theorem assoc_map_snd {β γ : Type} (f : β → γ) (k : Nat) : ∀ (l : List (Nat × β)),
    assoc k (l.map fun p => (p.1, f p.2)) = (assoc k l).map f
  | [] => rfl
  | (k1, b) :: l => by
    by_cases h : k = k1 <;> simp [assoc, h, assoc_map_snd f k l]

theorem type_hint_eq (fs : List FieldD) (k : Nat) (f : FieldD) (h : fs[k]? = some f) :
    SrcMeta.type_hint fs k = .ok (typeHint f) := by
  unfold SrcMeta.type_hint typeHints
  rw [dictItem_some _ k (typeHint f)]
  · rfl
  · rw [assoc_map_snd typeHint k, assoc_dataclassFields, h]; rfl

theorem type_hint_none (fs : List FieldD) (k : Nat) (h : fs[k]? = none) :
    SrcMeta.type_hint fs k = .raise .key := by
  unfold SrcMeta.type_hint typeHints
  rw [dictItem_none]
  · rfl
  · rw [assoc_map_snd typeHint k, assoc_dataclassFields, h]; rfl

/-- the generator `_get_field_default_gen` picks, per field kind:
    repeated → `list`, map → `dict`, proto3-optional / wrapper → `type(None)`, message → the class
    (`datetime_default_gen` for a Timestamp, `timedelta` for a Duration), enum → `try_value`, scalar → its class -/
def genOf (f : FieldD) : DefGen :=
  if f.ty == .map then .callable (.obj .dict)
  else if f.repeated then .callable (.obj .list)
  else if f.optional || f.wraps.isSome then .callable (.obj .noneType)
  else if f.ty == .message then
    (match f.kind with
     | .user c => .callable (.obj (.message c))
     | .timestamp => .datetimeDefaultGen
     | .duration => .callable (.obj .timedelta))
  else if f.ty == .enum then .tryValue (.obj (.enum f.enumRef))
  else .callable (.obj (scalarObj Option.none f.ty))

theorem gen_of_hint (fs : List FieldD) (k : Nat) (f : FieldD) (h : fs[k]? = some f) :
    SrcMeta.get_field_default_gen fs (k, f) = .ok (genOf f) := by
  unfold SrcMeta.get_field_default_gen
  simp only [fieldName, type_hint_eq fs k f h, res_bind_ok]
  unfold genOf typeHint
  by_cases hm : (f.ty == .map) = true
  · simp [hm, isUnionType, hasOrigin, origin, tobjIs]
  · simp only [hm, Bool.false_eq_true, if_false]
    by_cases hr : f.repeated = true
    · simp [hr, isUnionType, hasOrigin, origin, tobjIs]
    · simp only [hr, Bool.false_eq_true, if_false]
      cases hw : f.wraps with
      | some w => simp [optionalOf, isUnionType, hasOrigin, origin, tobjIs]
      | none =>
        by_cases ho : f.optional = true
        · simp [ho, optionalOf, isUnionType, hasOrigin, origin, tobjIs]
        · simp only [ho, Bool.false_eq_true, Bool.false_and, Bool.or_false, Option.isSome_none, if_false]
          by_cases hmsg : (f.ty == .message) = true
          · simp only [hmsg, if_true]
            cases f.kind <;> simp [kindObj, isUnionType, hasOrigin, issubclassEnum, hintIs]
          · simp only [hmsg, Bool.false_eq_true, if_false]
            cases hty : f.ty <;> simp_all [scalarObj, isUnionType, hasOrigin, issubclassEnum, hintIs, getTryValue]

theorem dictComp_gen (fs : List FieldD) : ∀ (rest : List FieldD) (i : Nat) (d : Dict Nat DefGen),
    (∀ j, fs[i + j]? = rest[j]?) → (∀ k, i ≤ k → assoc k d = none) →
    dictComp (fun field => fieldName field) (fun field => (SrcMeta.get_field_default_gen fs field).bind fun t1 => .ok t1)
      (enumFrom i rest) d = .ok (d ++ (enumFrom i rest).map fun p => (p.1, genOf p.2))
  | [], i, d, _, _ => by simp [enumFrom, dictComp]
  | f :: rest, i, d, hfs, hd => by
    have hf : fs[i]? = some f := by simpa using hfs 0
    simp only [enumFrom, dictComp, fieldName, gen_of_hint fs i f hf, res_bind_ok]
    rw [dictSet_absent d i _ (hd i (Nat.le_refl i)), dictComp_gen fs rest (i + 1)]
    · simp
    · intro j
      have := hfs (j + 1)
      simpa [Nat.add_assoc, Nat.add_comm 1 j] using this
    · intro k hk
      rw [assoc_append, hd k (by omega)]
      have : ¬ k = i := by omega
      simp [assoc, this]

theorem get_default_gen_eq (fs : List FieldD) :
    SrcMeta.ProtoClassMetadata.get_default_gen fs (dataclassFields fs)
      = .ok ((dataclassFields fs).map fun p => (p.1, genOf p.2)) := by
  unfold SrcMeta.ProtoClassMetadata.get_default_gen dataclassFields
  rw [dictComp_gen fs fs 0 [] (by simp) (by simp [assoc])]
  rfl

/-! ### `sorted_field_names` -/

theorem mapRes_items (d : Dict Nat Nat) : ∀ (ks : List Nat), (∀ k ∈ ks, (assoc k d).isSome) →
    mapRes (fun number => (dictItem d number).bind fun t2 => .ok t2) ks = .ok (ks.filterMap fun k => assoc k d)
  | [], _ => rfl
  | k :: ks, h => by
    have hk := h k (by simp)
    obtain ⟨v, hv⟩ := Option.isSome_iff_exists.mp hk
    simp only [mapRes, dictItem_some d k v hv, res_bind_ok, List.filterMap_cons, hv]
    rw [mapRes_items d ks (fun k' hk' => h k' (by simp [hk']))]
    rfl

theorem mem_keys_assoc {β : Type} (k : Nat) : ∀ (d : Dict Nat β), k ∈ d.map (·.1) → (assoc k d).isSome
  | [], h => by simp at h
  | (k1, b) :: d, h => by
    by_cases e : k = k1
    · simp [assoc, e]
    · simp only [assoc, e, if_false]
      apply mem_keys_assoc k d
      simpa [e] using h

theorem insertSorted_perm (a : Nat) : ∀ (l : List Nat), (insertSorted a l).Perm (a :: l)
  | [] => List.Perm.refl _
  | b :: l => by
    unfold insertSorted
    split
    · exact List.Perm.refl _
    · exact ((insertSorted_perm a l).cons b).trans (List.Perm.swap a b l)

theorem sortedKeys_perm {β : Type} (d : Dict Nat β) : (sortedKeys d).Perm (d.map (·.1)) := by
  unfold sortedKeys
  induction d.map (·.1) with
  | nil => exact List.Perm.refl _
  | cons a l ih => exact (insertSorted_perm a _).trans (ih.cons a)

theorem sortedKeys_mem {β : Type} (d : Dict Nat β) (k : Nat) (h : k ∈ sortedKeys d) : (assoc k d).isSome :=
  mem_keys_assoc k d ((sortedKeys_perm d).mem_iff.mp h)

/-! ### `_cls_for`, `_get_cls_by_field` -/

theorem bind_ok_id {α : Type} (x : Res α) : (x.bind fun y => .ok y) = x := by cases x <;> rfl

/-- `_cls_for(field, index)` on a hint: a plain class is returned as it is, a generic alias / union gives its
    `index`-th argument (for `index >= 0`) -/
def clsForSpec (t : Hint) (index : Int) : Res Hint :=
  match t with
  | .obj o => .ok (.obj o)
  | .generic o a => if index ≥ 0 then tupleItem a index else .ok (.generic o a)
  | .union310 a => if index ≥ 0 then tupleItem a index else .ok (.union310 a)

theorem cls_for_eq (fs : List FieldD) (k : Nat) (f : FieldD) (h : fs[k]? = some f) (index : Int) :
    SrcMeta.cls_for fs (k, f) index = clsForSpec (typeHint f) index := by
  unfold SrcMeta.cls_for
  simp only [fieldName, type_hint_eq fs k f h, res_bind_ok]
  cases typeHint f with
  | obj o => simp [hasArgs, clsForSpec]
  | generic o a =>
    by_cases hi : index ≥ 0
    · simp [hasArgs, args, clsForSpec, hi, bind_ok_id]
    · simp [hasArgs, clsForSpec, hi]
  | union310 a =>
    by_cases hi : index ≥ 0
    · simp [hasArgs, args, clsForSpec, hi, bind_ok_id]
    · simp [hasArgs, clsForSpec, hi]

/-- the annotation without `List[…]` / `Optional[…]` of a proto3-optional field -/
def baseHint (f : FieldD) : Hint :=
  match f.wraps with
  | some w => optionalOf (.obj (scalarObj Option.none w))
  | Option.none => if f.ty == .message then .obj (kindObj f.kind) else .obj (scalarObj f.enumRef f.ty)
def keyHint (f : FieldD) : Hint := .obj (scalarObj Option.none f.mapK)
def valHint (f : FieldD) : Hint :=
  if f.mapV == .message then .obj (kindObj f.mapVKind) else .obj (scalarObj f.enumRef f.mapV)
/-- `cls_by_field[name]` of a field that is not a map: the item class of a repeated field, the wrapped scalar
    class of a wrapper field, otherwise the class itself -/
def clsOf (f : FieldD) : Hint :=
  if f.repeated then baseHint f
  else match f.wraps with
    | some w => .obj (scalarObj Option.none w)
    | Option.none => baseHint f

theorem tupleItem_zero {α : Type} (a : α) (l : List α) : tupleItem (a :: l) 0 = .ok a := by
  simp [tupleItem]
theorem tupleItem_one {α : Type} (a b : α) (l : List α) : tupleItem (a :: b :: l) 1 = .ok b := by
  simp [tupleItem]

theorem pairItem_zero {α : Type} (p : α × α) : pairItem p 0 = .ok p.1 := by simp [pairItem]
theorem pairItem_one {α : Type} (p : α × α) : pairItem p 1 = .ok p.2 := by simp [pairItem]
theorem toNat_one : Int.toNat (1 : Int) = 1 := rfl
theorem toNat_two : Int.toNat (2 : Int) = 2 := rfl

theorem typeHint_map (f : FieldD) (h : (f.ty == .map) = true) : typeHint f = .generic .dict [keyHint f, valHint f] := by
  simp [typeHint, h, keyHint, valHint]

theorem clsFor_nonmap (f : FieldD) (h : (f.ty == .map) = false) : clsForSpec (typeHint f) 0 = .ok (clsOf f) := by
  unfold typeHint clsOf baseHint
  simp only [h, Bool.false_eq_true, if_false]
  by_cases hr : f.repeated = true
  · simp only [hr, if_true, clsForSpec, ge_iff_le, Int.le_refl, tupleItem_zero]
    rfl
  · simp only [hr, Bool.false_eq_true, if_false]
    cases hw : f.wraps with
    | some w => simp [optionalOf, clsForSpec, tupleItem_zero]
    | none =>
      by_cases ho : f.optional = true
      · simp [ho, optionalOf, clsForSpec, tupleItem_zero]
      · by_cases hm : (f.ty == .message) = true <;> simp [ho, hm, clsForSpec]

/-- one turn of the loop of `_get_cls_by_field` -/
def clsStep (d : Dict ClsKey ClsVal) (p : Field) : Dict ClsKey ClsVal :=
  if p.2.ty == .map then
    dictSet (dictSet d (.name p.1) (.entry (keyHint p.2) (entryField 1 p.2.mapK) (valHint p.2) (entryField 2 p.2.mapV)))
      (.dotValue p.1) (.hint (valHint p.2))
  else dictSet d (.name p.1) (.hint (clsOf p.2))

theorem cls_loop (fs : List FieldD) : ∀ (rest : List FieldD) (i : Nat) (d : Dict ClsKey ClsVal),
    (∀ j, fs[i + j]? = rest[j]?) →
    SrcMeta.ProtoClassMetadata.get_cls_by_field.loop1 fs (enumFrom i rest) d = .ok ((enumFrom i rest).foldl clsStep d)
  | [], i, d, _ => rfl
  | f :: rest, i, d, hfs => by
    have hf : fs[i]? = some f := by simpa using hfs 0
    have hrest : ∀ j, fs[i + 1 + j]? = rest[j]? := by
      intro j
      have := hfs (j + 1)
      simpa [Nat.add_assoc, Nat.add_comm 1 j] using this
    simp only [enumFrom, List.foldl_cons]
    rw [SrcMeta.ProtoClassMetadata.get_cls_by_field.loop1]
    simp only [fieldMetadataGet, fieldName, cls_for_eq fs i f hf]
    by_cases hm : (f.ty == .map) = true
    · have hmt : mapTypes f = some (f.mapK, f.mapV) := by simp [mapTypes, hm]
      simp only [hm, if_true, hmt, Option.isSome_some, typeHint_map f hm, clsForSpec, ge_iff_le, Int.le_refl,
        Int.zero_le_ofNat, tupleItem_zero, tupleItem_one, res_bind_ok, unwrapOpt, pairItem_zero, pairItem_one, toNat_one, toNat_two]
      rw [cls_loop fs rest (i + 1) _ hrest]
      simp [clsStep, hm]
    · have hm' : (f.ty == .map) = false := by simpa using hm
      simp only [hm', Bool.false_eq_true, if_false, clsFor_nonmap f hm', res_bind_ok]
      rw [cls_loop fs rest (i + 1) _ hrest]
      simp [clsStep, hm']

theorem get_cls_by_field_eq (fs : List FieldD) :
    SrcMeta.ProtoClassMetadata.get_cls_by_field fs (dataclassFields fs) = .ok ((dataclassFields fs).foldl clsStep []) := by
  unfold SrcMeta.ProtoClassMetadata.get_cls_by_field dataclassFields
  dsimp only
  rw [cls_loop fs fs 0 [] (by simp)]
  rfl

/-! ### `ProtoClassMetadata.__init__` as a whole -/

/-- the tables `ProtoClassMetadata(cls)` holds for the class with fields `fs` -/
def tables (fs : List FieldD) : ClassMeta :=
  { oneof_group_by_field := Lbf (dataclassFields fs) []
    oneof_field_by_group := Lbg (dataclassFields fs) []
    field_name_by_number := Lnum (dataclassFields fs) []
    meta_by_field_name := dataclassFields fs
    sorted_field_names := (sortedKeys (Lnum (dataclassFields fs) [])).filterMap fun k => assoc k (Lnum (dataclassFields fs) [])
    default_gen := (dataclassFields fs).map fun p => (p.1, genOf p.2)
    cls_by_field := (dataclassFields fs).foldl clsStep [] }

/-- `ProtoClassMetadata(cls)` never raises and builds `tables fs` -/
theorem init_eq (fs : List FieldD) : SrcMeta.ProtoClassMetadata.init fs = .ok (tables fs) := by
  unfold SrcMeta.ProtoClassMetadata.init
  simp only [init_loop, res_bind_ok]
  rw [mapRes_items _ _ (fun k hk => sortedKeys_mem _ k hk)]
  simp only [res_bind_ok, get_default_gen_eq, get_cls_by_field_eq]
  have : Lbn (dataclassFields fs) [] = dataclassFields fs := by
    unfold dataclassFields
    rw [Lbn_eq fs 0 [] (by simp [assoc])]; rfl
  rw [this]
  rfl

/-! ### the lookups in `tables fs` -/

theorem tables_group_by_field (fs : List FieldD) (k : Nat) :
    assoc k (tables fs).oneof_group_by_field = (fs[k]?).bind fun f => f.group := by
  show assoc k (Lbf (enumFrom 0 fs) []) = _
  rw [assoc_Lbf k fs 0 [] (by simp [assoc])]
  simp

theorem tables_name_by_number (fs : List FieldD) (n : Nat) :
    assoc n (tables fs).field_name_by_number = findField fs n := by
  show assoc n (Lnum (enumFrom 0 fs) []) = _
  rw [assoc_Lnum n fs 0 []]
  rfl

theorem tables_field_by_group (fs : List FieldD) (g : Nat) :
    assoc g (tables fs).oneof_field_by_group =
      match membersFrom g fs 0 with
      | [] => none
      | m :: ms => some (m :: ms) := by
  show assoc g (Lbg (enumFrom 0 fs) []) = _
  rw [assoc_Lbg g fs 0 [] (by simp [assoc])]
  cases membersFrom g fs 0 <;> simp [assoc]

theorem tables_meta_by_field_name (fs : List FieldD) (k : Nat) :
    assoc k (tables fs).meta_by_field_name = fs[k]? := assoc_dataclassFields fs k

theorem tables_default_gen (fs : List FieldD) (k : Nat) :
    assoc k (tables fs).default_gen = (fs[k]?).map genOf := by
  show assoc k ((dataclassFields fs).map fun p => (p.1, genOf p.2)) = _
  rw [assoc_map_snd genOf k, assoc_dataclassFields]

/-! #### `sorted_field_names` with pairwise distinct numbers: every field name exactly once -/

theorem Lnum_distinct : ∀ (fs : List FieldD) (i : Nat) (d : Dict Nat Nat),
    numsDistinctB fs = true → (∀ f ∈ fs, assoc f.num d = none) →
    Lnum (enumFrom i fs) d = d ++ (enumFrom i fs).map fun p => (p.2.num, p.1)
  | [], i, d, _, _ => by simp [enumFrom, Lnum]
  | f :: fs, i, d, hd, ha => by
    simp only [numsDistinctB, Bool.and_eq_true, List.all_eq_true] at hd
    simp only [enumFrom, Lnum]
    rw [dictSet_absent d f.num i (ha f (by simp)), Lnum_distinct fs (i + 1) _ hd.2]
    · simp
    · intro f' hf'
      rw [assoc_append, ha f' (by simp [hf'])]
      have : f'.num ≠ f.num := by simpa using hd.1 f' hf'
      simp [assoc, this]

theorem enumFrom_map_fst (fs : List FieldD) : ∀ i, (enumFrom i fs).map (·.1) = List.range' i fs.length := by
  induction fs with
  | nil => intro i; rfl
  | cons f fs ih => intro i; simp [enumFrom, ih, List.range'_succ]

theorem filterMap_congr' {α β : Type} (f g : α → Option β) : ∀ (l : List α), (∀ x ∈ l, f x = g x) → l.filterMap f = l.filterMap g
  | [], _ => rfl
  | x :: l, h => by
    simp only [List.filterMap_cons, h x (by simp)]
    rw [filterMap_congr' f g l (fun y hy => h y (by simp [hy]))]

theorem filterMap_assoc_keys (d : Dict Nat Nat) (hnd : (d.map (·.1)).Nodup) :
    (d.map (·.1)).filterMap (fun k => assoc k d) = d.map (·.2) := by
  induction d with
  | nil => rfl
  | cons p d ih =>
    obtain ⟨k, v⟩ := p
    simp only [List.map_cons, List.nodup_cons] at hnd
    simp only [List.map_cons, List.filterMap_cons, assoc, if_true]
    rw [← ih hnd.2]
    congr 1
    apply filterMap_congr'
    intro k' hk'
    have : k' ≠ k := fun e => hnd.1 (e ▸ hk')
    simp [assoc, this]

theorem numsDistinct_nodup : ∀ (fs : List FieldD), numsDistinctB fs = true → (fs.map (·.num)).Nodup
  | [], _ => by simp
  | f :: fs, h => by
    simp only [numsDistinctB, Bool.and_eq_true, List.all_eq_true] at h
    simp only [List.map_cons, List.nodup_cons, List.mem_map, not_exists, not_and]
    refine ⟨fun f' hf' e => ?_, numsDistinct_nodup fs h.2⟩
    have := h.1 f' hf'
    simp [e] at this

/-- with pairwise distinct field numbers `sorted_field_names` holds every field name exactly once -/
theorem tables_sorted_perm (fs : List FieldD) (h : numsDistinctB fs = true) :
    (tables fs).sorted_field_names.Perm (List.range fs.length) := by
  show ((sortedKeys (Lnum (enumFrom 0 fs) [])).filterMap fun k => assoc k (Lnum (enumFrom 0 fs) [])).Perm _
  have hL : Lnum (enumFrom 0 fs) [] = (enumFrom 0 fs).map fun p => (p.2.num, p.1) := by
    rw [Lnum_distinct fs 0 [] h (by simp [assoc])]; rfl
  rw [hL]
  set d : Dict Nat Nat := (enumFrom 0 fs).map fun p => (p.2.num, p.1) with hd
  have hkeys : d.map (·.1) = fs.map (·.num) := by
    rw [hd, List.map_map]
    have : ∀ (l : List FieldD) (i : Nat), (enumFrom i l).map ((fun p : Nat × Nat => p.1) ∘ fun p => (p.2.num, p.1)) = l.map (·.num) := by
      intro l
      induction l with
      | nil => intro i; rfl
      | cons f l ih => intro i; simp [enumFrom, ih]
    exact this fs 0
  have hvals : d.map (·.2) = List.range fs.length := by
    rw [hd, List.map_map]
    have : ((fun p : Nat × Nat => p.2) ∘ fun p : Field => (p.2.num, p.1)) = fun p : Field => p.1 := rfl
    rw [this, enumFrom_map_fst, List.range_eq_range']
  have hnd : (d.map (·.1)).Nodup := by rw [hkeys]; exact numsDistinct_nodup fs h
  have hp : (sortedKeys d).Perm (d.map (·.1)) := sortedKeys_perm d
  exact ((hp.filterMap _).trans (by rw [filterMap_assoc_keys d hnd, hvals]))

end Bp.SrcTieMeta
