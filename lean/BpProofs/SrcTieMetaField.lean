import BpProofs.Gen.SrcMeta
/-
  THE TIE FOR `dataclass_field` AND THE `*_field` HELPERS (BpProofs/Gen/SrcMeta.lean, regenerated from the Python AST on
  every run): `dataclass_field` stores the metadata as given and makes the dataclass default `None` for an optional field,
  `PLACEHOLDER` otherwise — the prelude's `fieldDefault`, i.e. the slot value the model's `fresh` / `initSlots` give a field
  that received no argument; every helper is `dataclass_field` at its `TYPE_*` constant.
-/
namespace Bp.SrcTieMeta
open Bp Bp.PyMeta
open Bp.Py (Res)

theorem dataclass_field_eq (n : Nat) (t : PType) (mt : Option (PType × PType)) (g : Option Nat) (w : Option PType) (o : Bool) :
    SrcMeta.dataclass_field n t mt g w o
      = .ok { default := if o then Val.none else Val.ph, metadata := ⟨n, t, mt, g, w, o⟩ } := rfl

/-- for the field a descriptor stands for: default = `fieldDefault f`, metadata = `metaOf f` -/
theorem dataclass_field_descr (f : FieldD) :
    SrcMeta.dataclass_field f.num f.ty (mapTypes f) f.group f.wraps f.optional
      = .ok { default := fieldDefault f, metadata := metaOf f } := rfl

theorem scalar_helpers (n : Nat) (g : Option Nat) (o : Bool) :
    SrcMeta.enum_field n g o = SrcMeta.dataclass_field n .enum none g none o
    ∧ SrcMeta.bool_field n g o = SrcMeta.dataclass_field n .bool none g none o
    ∧ SrcMeta.int32_field n g o = SrcMeta.dataclass_field n .int32 none g none o
    ∧ SrcMeta.int64_field n g o = SrcMeta.dataclass_field n .int64 none g none o
    ∧ SrcMeta.uint32_field n g o = SrcMeta.dataclass_field n .uint32 none g none o
    ∧ SrcMeta.uint64_field n g o = SrcMeta.dataclass_field n .uint64 none g none o
    ∧ SrcMeta.sint32_field n g o = SrcMeta.dataclass_field n .sint32 none g none o
    ∧ SrcMeta.sint64_field n g o = SrcMeta.dataclass_field n .sint64 none g none o
    ∧ SrcMeta.float_field n g o = SrcMeta.dataclass_field n .float none g none o
    ∧ SrcMeta.double_field n g o = SrcMeta.dataclass_field n .double none g none o
    ∧ SrcMeta.fixed32_field n g o = SrcMeta.dataclass_field n .fixed32 none g none o
    ∧ SrcMeta.fixed64_field n g o = SrcMeta.dataclass_field n .fixed64 none g none o
    ∧ SrcMeta.sfixed32_field n g o = SrcMeta.dataclass_field n .sfixed32 none g none o
    ∧ SrcMeta.sfixed64_field n g o = SrcMeta.dataclass_field n .sfixed64 none g none o
    ∧ SrcMeta.string_field n g o = SrcMeta.dataclass_field n .string none g none o
    ∧ SrcMeta.bytes_field n g o = SrcMeta.dataclass_field n .bytes none g none o :=
  ⟨rfl, rfl, rfl, rfl, rfl, rfl, rfl, rfl, rfl, rfl, rfl, rfl, rfl, rfl, rfl, rfl⟩

theorem message_map_helpers (n : Nat) (g : Option Nat) (w : Option PType) (o : Bool) (k v : PType) :
    SrcMeta.message_field n g w o = SrcMeta.dataclass_field n .message none g w o
    ∧ SrcMeta.map_field n k v g = SrcMeta.dataclass_field n .map (some (k, v)) g none false :=
  ⟨rfl, rfl⟩

end Bp.SrcTieMeta
