import BpProofs.SrcTieMeta
/-
  THE TIE BETWEEN THE TRANSLATED CONSTRUCTION / DEFAULT CODE AND THE MODEL:

    * `Message.__setattr__` as the dataclass `__init__` runs it (before `_group_current` exists): stores the
      value (a field-less message argument marked present) and sets `__dict__["_serialized_on_wire"]`,
      nothing else (`setattr_init`);
    * the generated dataclass `__init__` (PyPreludeMeta `dataclassInit`) leaves the model's `initSlots`;
    * `Message.__post_init__` leaves `_serialized_on_wire = anyNonSentinel`, `_unknown_fields = b""` and a
      `_group_current` dict that reads, group by group, as the model's `initCur` (`post_init_eq`);
    * together: `Cls(**kw)` as written is the model's `construct` (`constructVal_eq`), `Cls()` is `fresh`;
    * `_get_field_default` as written is `defaultOf` (`get_field_default_eq`), for every field kind.
-/
set_option linter.unusedSimpArgs false
set_option linter.unusedVariables false
namespace Bp.SrcTieMeta
open Bp Bp.PyEnum Bp.EnumM Bp.PyMeta Bp.SrcTieEnum
open Bp.Py (Res ofR)

/-! ### `__setattr__` during the dataclass `__init__` -/

theorem markEmpty_eq (S : Schema) (v : Val) :
    (if (isMessage v && hasBetterproto v && !valHasFields S v) = true then valSetOnWire v else v) = markEmpty S v := by
  cases v <;> simp [isMessage, hasBetterproto, isMsgVal, valHasFields, valSetOnWire, markEmpty]

/-- before `__post_init__` (no `_group_current` yet) `__setattr__` of a field stores the value — a field-less
    message argument marked present — and `_serialized_on_wire = True`; it does no oneof bookkeeping -/
theorem setattr_init (S : Schema) (fs : List FieldD) (self : Inst) (i : Nat) (v : Val) (h : self.groupCurrent = none) :
    SrcMeta.setattr S fs self i v
      = .ok { slots := self.slots.set i (markEmpty S v), onWire := some true, unknown := self.unknown, groupCurrent := none } := by
  unfold SrcMeta.setattr
  simp only [markEmpty_eq, nameNeStr, if_true, hasGroupCurrent, setOnWire, h, Option.isSome_none, Bool.false_eq_true,
    if_false, res_bind_ok, rawSet]

/-! ### the generated dataclass `__init__` -/

theorem lookupKw_map (S : Schema) (kw : List (Nat × Val)) (i : Nat) :
    lookupKw (kw.map fun (p : Nat × Val) => (p.1, markEmpty S p.2)) i = (lookupKw kw i).map (markEmpty S) := by
  induction kw with
  | nil => rfl
  | cons p kw ih =>
    obtain ⟨j, v⟩ := p
    by_cases h : (j == i) = true <;> simp [lookupKw, h, ih]

theorem markEmpty_default (S : Schema) (f : FieldD) : markEmpty S (fieldDefault f) = fieldDefault f := by
  unfold fieldDefault; split <;> rfl

theorem initSlots_length (fs : List FieldD) (kw : List (Nat × Val)) : ∀ (rest : List FieldD) (i : Nat),
    (initSlots fs kw i rest).length = rest.length
  | [], _ => rfl
  | f :: rest, i => by simp [initSlots, initSlots_length fs kw rest (i + 1)]

theorem init_go (S : Schema) (fs : List FieldD) (kw : List (Nat × Val)) :
    ∀ (rest : List FieldD) (i : Nat) (pre : List Val) (ow : Option Bool) (unk : Option Bytes), pre.length = i →
    ∃ ow', dataclassInit.go (SrcMeta.setattr S fs) kw (enumFrom i rest)
        { slots := pre ++ rest.map fieldDefault, onWire := ow, unknown := unk, groupCurrent := none }
      = .ok { slots := pre ++ initSlots fs (kw.map fun (p : Nat × Val) => (p.1, markEmpty S p.2)) i rest,
              onWire := ow', unknown := unk, groupCurrent := none }
  | [], i, pre, ow, unk, _ => ⟨ow, by simp [enumFrom, dataclassInit.go, initSlots]⟩
  | f :: rest, i, pre, ow, unk, hp => by
    simp only [enumFrom, dataclassInit.go]
    rw [setattr_init S fs _ i _ rfl]
    simp only [res_bind_ok, List.map_cons]
    have hset : (pre ++ fieldDefault f :: rest.map fieldDefault).set i
        (markEmpty S ((lookupKw kw i).getD (fieldDefault f)))
        = (pre ++ [markEmpty S ((lookupKw kw i).getD (fieldDefault f))]) ++ rest.map fieldDefault := by
      rw [List.set_append_right _ _ (by omega)]
      simp [hp]
    rw [hset]
    obtain ⟨ow', h'⟩ := init_go S fs kw rest (i + 1) (pre ++ [markEmpty S ((lookupKw kw i).getD (fieldDefault f))])
      (some true) unk (by simp [hp])
    refine ⟨ow', ?_⟩
    rw [h']
    congr 2
    simp only [initSlots, lookupKw_map, List.append_assoc, List.singleton_append, fieldDefault]
    cases lookupKw kw i with
    | none => simp [markEmpty_default, fieldDefault]; split <;> rfl
    | some v => simp

/-- the state the generated `__init__` hands to `__post_init__` -/
theorem dataclassInit_eq (S : Schema) (fs : List FieldD) (kw : List (Nat × Val)) (hkw : ∀ p ∈ kw, p.1 < fs.length) :
    ∃ ow, dataclassInit (SrcMeta.setattr S fs) fs kw
      = .ok { slots := initSlots fs (kw.map fun (p : Nat × Val) => (p.1, markEmpty S p.2)) 0 fs,
              onWire := ow, unknown := none, groupCurrent := none } := by
  unfold dataclassInit
  have : kw.any (fun p => decide (fs.length ≤ p.1)) = false := by
    rw [List.any_eq_false]
    intro p hp
    have := hkw p hp
    simp; omega
  simp only [this, Bool.false_eq_true, if_false, dataclassFields]
  obtain ⟨ow, h⟩ := init_go S fs kw fs 0 [] none none rfl
  exact ⟨ow, by simpa using h⟩

/-- an argument that names no field: TypeError (the model's `construct` ignores it) -/
theorem dataclassInit_unknown (S : Schema) (fs : List FieldD) (kw : List (Nat × Val)) (p : Nat × Val) (hp : p ∈ kw)
    (h : fs.length ≤ p.1) : dataclassInit (SrcMeta.setattr S fs) fs kw = .raise .type := by
  unfold dataclassInit
  have : kw.any (fun p => decide (fs.length ≤ p.1)) = true := by
    rw [List.any_eq_true]; exact ⟨p, hp, by simpa using h⟩
  simp [this]

/-! ### `__post_init__` -/

theorem nonSentinel_eq (f : FieldD) (v : Val) :
    ((!isPlaceholder v) && !(f.optional && isNone v)) = !isSentinel f v := by
  cases v <;> simp [isPlaceholder, isNone, isSentinel]

/-- one turn of the loop of `__post_init__` on (`group_current`, `all_sentinel`) -/
def piStep (self : Inst) (st : Dict Nat (Option Nat) × Bool) (p : Nat × FieldD) : Dict Nat (Option Nat) × Bool :=
  let gc := match p.2.group with
    | some g => dictSetdefaultNone st.1 g
    | Option.none => st.1
  if isSentinel p.2 (rawGet self p.1) then (gc, st.2)
  else ((match p.2.group with | some g => dictSet gc g (some p.1) | Option.none => gc), false)

theorem post_init_loop (fs : List FieldD) (self : Inst) : ∀ (xs : List (Nat × FieldD)) (gc : Dict Nat (Option Nat)) (a : Bool),
    SrcMeta.post_init.loop1 fs self xs (gc, a) = .ok (xs.foldl (piStep self) (gc, a))
  | [], _, _ => rfl
  | p :: xs, gc, a => by
    obtain ⟨k, f⟩ := p
    rw [SrcMeta.post_init.loop1]
    simp only [nonSentinel_eq, List.foldl_cons]
    cases hg : f.group with
    | none =>
      by_cases hs : isSentinel f (rawGet self k) = true
      · simp [hs, piStep, hg, post_init_loop fs self xs]
      · simp [hs, piStep, hg, post_init_loop fs self xs]
    | some g =>
      by_cases hs : isSentinel f (rawGet self k) = true
      · simp [hs, piStep, hg, post_init_loop fs self xs]
      · simp [hs, piStep, hg, post_init_loop fs self xs]

/-- `_group_current` read group by group: what `Inst.toMState` makes of the dict -/
def curOf (n : Nat) (d : Dict Nat (Option Nat)) : List (Option Nat) :=
  (List.range n).map fun g => (PyEnum.dictGet d g).getD Option.none

theorem curOf_nil (n : Nat) : curOf n [] = List.replicate n Option.none := by
  unfold curOf
  apply List.ext_getElem?
  intro j
  simp [PyEnum.dictGet, assoc, List.getElem?_replicate]
  by_cases h : j < n <;> simp [h]

theorem curOf_set (n : Nat) (d : Dict Nat (Option Nat)) (g i : Nat) :
    curOf n (dictSet d g (some i)) = (curOf n d).set g (some i) := by
  unfold curOf
  apply List.ext_getElem?
  intro j
  simp only [List.getElem?_map, List.getElem?_set, List.length_map, List.length_range, PyEnum.dictGet, assoc_dictSet]
  by_cases hj : j < n
  · simp only [List.getElem?_range hj, Option.map_some]
    by_cases hg : g = j
    · subst hg; simp [hj]
    · have : ¬ j = g := fun e => hg e.symm
      simp [hg, this]
  · have : (List.range n)[j]? = none := by simp [hj]
    simp only [this, Option.map_none]
    by_cases hg : g = j
    · subst hg; simp [hj]
    · simp [hg]

theorem curOf_setdefault (n : Nat) (d : Dict Nat (Option Nat)) (g : Nat) :
    curOf n (dictSetdefaultNone d g) = curOf n d := by
  unfold curOf
  apply List.map_congr_left
  intro j _
  simp only [PyEnum.dictGet, assoc_setdefaultNone]
  by_cases h : j = g <;> simp [h]

theorem drop_cons {α : Type} (l : List α) (i : Nat) (v : α) (vs : List α) (h : l.drop i = v :: vs) :
    l[i]? = some v ∧ l.drop (i + 1) = vs := by
  constructor
  · have : (l.drop i)[0]? = some v := by rw [h]; rfl
    simpa [List.getElem?_drop] using this
  · have : (l.drop i).drop 1 = vs := by rw [h]; rfl
    simpa [List.drop_drop, Nat.add_comm] using this

theorem pi_fold (n : Nat) (self : Inst) : ∀ (rest : List FieldD) (vs : List Val) (i : Nat) (gc : Dict Nat (Option Nat)) (a : Bool),
    self.slots.drop i = vs → vs.length = rest.length →
    curOf n ((enumFrom i rest).foldl (piStep self) (gc, a)).1 = initCur rest vs i (curOf n gc)
    ∧ ((enumFrom i rest).foldl (piStep self) (gc, a)).2 = (a && !anyNonSentinel rest vs)
  | [], vs, i, gc, a, _, hl => by
    cases vs with
    | nil => simp [enumFrom, initCur, anyNonSentinel]
    | cons v vs => simp at hl
  | f :: rest, vs, i, gc, a, hd, hl => by
    cases vs with
    | nil => simp at hl
    | cons v vs =>
      obtain ⟨hv, hd'⟩ := drop_cons _ _ _ _ hd
      have hraw : rawGet self i = v := by simp [rawGet, List.getD_eq_getElem?_getD, hv]
      have hl' : vs.length = rest.length := by simpa using hl
      simp only [enumFrom, List.foldl_cons, initCur, anyNonSentinel]
      have ih := pi_fold n self rest vs (i + 1) (piStep self (gc, a) (i, f)).1 (piStep self (gc, a) (i, f)).2 hd' hl'
      rw [show piStep self (gc, a) (i, f) = ((piStep self (gc, a) (i, f)).1, (piStep self (gc, a) (i, f)).2) from rfl]
      refine ⟨ih.1.trans ?_, ih.2.trans ?_⟩
      · congr 1
        unfold piStep
        simp only [hraw]
        cases hg : f.group with
        | none => by_cases hs : isSentinel f v = true <;> simp [hs]
        | some g => by_cases hs : isSentinel f v = true <;> simp [hs, curOf_set, curOf_setdefault]
      · unfold piStep
        simp only [hraw]
        by_cases hs : isSentinel f v = true <;> simp [hs]

/-- **`__post_init__` as written**: `_serialized_on_wire = not all_sentinel` is the model's `anyNonSentinel`,
    `_unknown_fields = b""`, and `_group_current` reads per group as the model's `initCur` (one raw slot per
    field) -/
theorem post_init_eq (fs : List FieldD) (self : Inst) (hl : self.slots.length = fs.length) :
    ∃ gc, SrcMeta.post_init fs self
        = .ok { slots := self.slots, onWire := some (anyNonSentinel fs self.slots), unknown := some [], groupCurrent := some gc }
      ∧ ∀ n, curOf n gc = initCur fs self.slots 0 (List.replicate n Option.none) := by
  unfold SrcMeta.post_init
  simp only [init_eq, res_bind_ok, dictItems, post_init_loop]
  have hm : (tables fs).meta_by_field_name = enumFrom 0 fs := rfl
  rw [hm]
  refine ⟨((enumFrom 0 fs).foldl (piStep self) ([], true)).1, ?_, ?_⟩
  · have h2 := (pi_fold 0 self fs self.slots 0 [] true (by simp) hl).2
    simp only [setOnWire, setUnknown, setGroupCurrent, h2, Bool.true_and, Bool.not_not]
  · intro n
    have h1 := (pi_fold n self fs self.slots 0 [] true (by simp) hl).1
    rw [h1, curOf_nil]

/-! ### construction as a whole -/

/-- `Cls(**kw)` as written: the generated dataclass `__init__`, every assignment through the translated
    `__setattr__`, then the translated `__post_init__` -/
def constructInst (S : Schema) (c : Nat) (kw : List (Nat × Val)) : Res Inst :=
  (dataclassInit (SrcMeta.setattr S (fieldsOf S c)) (fieldsOf S c) kw).bind (SrcMeta.post_init (fieldsOf S c))

/-- … read as a model value -/
def constructVal (S : Schema) (c : Nat) (kw : List (Nat × Val)) : Res Val :=
  (constructInst S c kw).bind fun inst =>
    match inst.toMState (groupsOf S c) with
    | some st => .ok (st.toVal c)
    | Option.none => .raise .attr

theorem constructInst_eq (S : Schema) (c : Nat) (kw : List (Nat × Val)) (hkw : ∀ p ∈ kw, p.1 < (fieldsOf S c).length) :
    ∃ inst, constructInst S c kw = .ok inst ∧ (inst.toMState (groupsOf S c)).map (·.toVal c) = some (construct S c kw) := by
  unfold constructInst
  obtain ⟨ow, h1⟩ := dataclassInit_eq S (fieldsOf S c) kw hkw
  rw [h1, res_bind_ok]
  obtain ⟨gc, h2, h3⟩ := post_init_eq (fieldsOf S c)
    { slots := initSlots (fieldsOf S c) (kw.map fun (p : Nat × Val) => (p.1, markEmpty S p.2)) 0 (fieldsOf S c),
      onWire := ow, unknown := none, groupCurrent := none } (initSlots_length _ _ _ _)
  refine ⟨_, h2, ?_⟩
  have := h3 (groupsOf S c)
  simp only [Inst.toMState, Option.map_some, MState.toVal, construct]
  unfold curOf at this
  rw [this]

/-- **`Cls(**kw)` as written is the model's `construct`**, for every schema, class and argument assignment
    that names fields of the class -/
theorem constructVal_eq (S : Schema) (c : Nat) (kw : List (Nat × Val)) (hkw : ∀ p ∈ kw, p.1 < (fieldsOf S c).length) :
    constructVal S c kw = .ok (construct S c kw) := by
  obtain ⟨inst, h1, h2⟩ := constructInst_eq S c kw hkw
  unfold constructVal
  rw [h1, res_bind_ok]
  cases h : inst.toMState (groupsOf S c) with
  | none => simp [h] at h2
  | some st => simp only [h, Option.map_some, Option.some.injEq] at h2; simp [h2]

theorem initCur_sentinel : ∀ (fs : List FieldD) (i : Nat) (cur : List (Option Nat)),
    initCur fs (fs.map fun f => if f.optional then Val.none else Val.ph) i cur = cur
  | [], _, _ => rfl
  | f :: fs, i, cur => by
    simp only [List.map_cons, initCur]
    have : isSentinel f (if f.optional then Val.none else Val.ph) = true := by
      by_cases h : f.optional = true <;> simp [h, isSentinel]
    rw [this]
    cases f.group <;> simp [initCur_sentinel fs (i + 1)]

theorem anyNonSentinel_default : ∀ (fs : List FieldD),
    anyNonSentinel fs (fs.map fun f => if f.optional then Val.none else Val.ph) = false
  | [] => rfl
  | f :: fs => by
    have : isSentinel f (if f.optional then Val.none else Val.ph) = true := by
      by_cases h : f.optional = true <;> simp [h, isSentinel]
    simp [anyNonSentinel, this, anyNonSentinel_default fs]

theorem initSlots_nil (fs : List FieldD) : ∀ (rest : List FieldD) (i : Nat),
    initSlots fs [] i rest = rest.map fun f => if f.optional then Val.none else Val.ph
  | [], _ => rfl
  | f :: rest, i => by simp [initSlots, lookupKw, initSlots_nil fs rest (i + 1)]

/-- the model's constructor without arguments is the model's fresh instance -/
theorem construct_nil (S : Schema) (c : Nat) : construct S c [] = fresh S c := by
  simp [construct, fresh, initSlots_nil, anyNonSentinel_default, initCur_sentinel]

/-- **`Cls()` as written is `fresh`** -/
theorem constructVal_nil (S : Schema) (c : Nat) : constructVal S c [] = .ok (fresh S c) := by
  rw [constructVal_eq S c [] (by simp), construct_nil]

/-! ### `_get_field_default` -/

/-- guard of the default theorems: a map field is not also marked `repeated` (no such descriptor comes out of the
    plugin; for one, the annotation is `Dict[…]` and the real default `{}` while the model's `defKind` says `[]`) -/
def mapNotRepeated (f : FieldD) : Bool := !(f.ty == .map && f.repeated)

/-- calling the generator the source picks gives the model's default, for every field kind -/
theorem callFor_genOf (S : Schema) (mk : Nat → Res Val) (hmk : ∀ c, mk c = .ok (fresh S c)) (f : FieldD)
    (hg : mapNotRepeated f = true) : callFor mk f.ty (genOf f) = .ok (defaultOf S f) := by
  unfold genOf defaultOf FieldD.defKind
  by_cases hm : (f.ty == .map) = true
  · have hr : f.repeated = false := by simpa [mapNotRepeated, hm] using hg
    simp [hm, hr, callFor, defaultOfKind]
  · simp only [hm, Bool.false_eq_true, if_false]
    by_cases hr : f.repeated = true
    · simp [hr, callFor, defaultOfKind]
    · simp only [hr, Bool.false_eq_true, if_false]
      by_cases ho : (f.optional || f.wraps.isSome) = true
      · simp [ho, callFor, defaultOfKind]
      · simp only [ho, Bool.false_eq_true, if_false]
        by_cases hmsg : (f.ty == .message) = true
        · simp only [hmsg, if_true]
          cases f.kind <;> simp [callFor, msgKindDef, defaultOfKind, hmk]
        · simp only [hmsg, Bool.false_eq_true, if_false]
          cases hty : f.ty <;> simp_all [callFor, scalarObj, scalarDef, defaultOfKind]

/-- **`_get_field_default` as written is the model's `defaultOf`** (KeyError for a name that is not a field): it is
    what PyPreludeObj.lean assumes under the name `Py.getFieldDefault` -/
theorem get_field_default_eq (S : Schema) (mk : Nat → Res Val) (hmk : ∀ c, mk c = .ok (fresh S c))
    (fs : List FieldD) (self : Inst) (k : Nat) (hg : ∀ f, fs[k]? = some f → mapNotRepeated f = true) :
    SrcMeta.get_field_default mk fs self k =
      (match fs[k]? with
       | some f => .ok (defaultOf S f)
       | Option.none => .raise .key) := by
  unfold SrcMeta.get_field_default
  simp only [init_eq, res_bind_ok]
  cases h : fs[k]? with
  | none =>
    rw [dictItem_none _ _ (by rw [tables_default_gen, h]; rfl)]
    rfl
  | some f =>
    rw [dictItem_some _ _ (genOf f) (by rw [tables_default_gen, h]; rfl)]
    simp only [res_bind_ok, protoTypeOf, h, Option.map_some, Option.getD_some, callFor_genOf S mk hmk f (hg f h)]

end Bp.SrcTieMeta
