import BpProofs.Gen.SrcMsg
import BpProofs.SrcTieDump
import BpProofs.SrcTieLoad
/-
  THE TIE BETWEEN THE TRANSLATED WHOLE METHODS AND THE HAND-WRITTEN MODEL, encoder side.

  `Bp.Src.msg_dump`, `msg_len`, `msg_bytes`, … (BpProofs/Gen/SrcMsg.lean) are regenerated from the
  Python AST of `Message.dump`, `__len__`, `__bytes__`, `SerializeToString`, `__getstate__`,
  `__reduce__` on every run; their loops call the translated loop bodies `Src.dump_field` /
  `Src.len_field` (Gen/SrcDump.lean).  `Src.value_bytes fuel S depth m` ties the recursive knot:
  `bytes(<nested Message>)` inside the intrinsics is the translated `__bytes__` itself, one nesting
  level down.  The theorems below say, for every schema and every value inside the guard,

      Src.value_bytes fuel S depth m            = Py.ofR (dumpVal S m)
      Src.value_len fuel S depth m              = Py.ofR (lenVal S m)        (as an int)
      Src.value_dump fuel S depth m stream (-1) = stream ++ dumpDelimited S m

  for every nesting budget `depth > depthOf m`.

  Guards:
    * `msgDynOk S m` (decidable): at every nesting level one raw slot per field and `dynOk f v`
      (the guard of `SrcTieDump.dump_field_eq`) for every slot.  Every typed message of a
      well-formed schema satisfies it (`msgDynOk_of_typed`).
    * `WfSchemaOpt S` (optional fields are singular non-map fields), as in `dump_field_eq`.
    * `depthOf m < depth`: the nesting budget covers the value (one level is kept for the lazily
      materialised default of a message-typed field).
    * for `dump(stream, SIZE_DELIMITED)`: the `while` loop of `dump_varint` gets enough fuel.

  How the knot is tied: (1) with `enc := dumpVal S` the translated methods equal the model
  (`msg_dump_model`, from `dump_field_eq` by induction over the fields); (2) the translated loop
  bodies depend on `enc` only through its values on the Message instances found in the slot that
  are not skipped by the default test (`dump_field_congr`, proved on the generated code); (3) by
  induction on `depth`, `value_bytes depth` agrees with `dumpVal S` on every guarded value of smaller
  depth, and on a fresh default instance at every depth ≥ 1 (`value_bytes_fresh`).
-/
set_option linter.unusedSimpArgs false
set_option linter.unusedVariables false
namespace Bp.SrcTieMsg
open Bp Bp.Py Gen Bp.SrcTieDump

/-! ### `_include_default_value_for_oneof` -/

theorem include_default_eq (st : MState) (idx : Nat) (f : FieldD) :
    Src.msg_include_default st idx f = selectedInGroup f idx st.cur := by
  unfold Src.msg_include_default selectedInGroup
  simp only [metaGroup, Msg.groupCurrentGet]
  cases f.group <;> simp

/-! ### dependence of the translated loop bodies on `enc` -/

section congr
variable (S : Schema) (enc enc' : Val → R Bytes)

theorem preprocessSingle_congr (v : Val) (h : isMsgVal v = true → enc v = enc' v) (t : PType) (w : Option PType) :
    preprocessSingle S enc t w v = preprocessSingle S enc' t w v := by
  unfold preprocessSingle preprocessSingleR
  cases hv : isMsgVal v with
  | false => simp
  | true => rw [h hv]

theorem serializeSingle_congr (v : Val) (h : isMsgVal v = true → enc v = enc' v) (n : Nat) (t : PType) (se : Bool)
    (w : Option PType) : serializeSingle S enc n t v se w = serializeSingle S enc' n t v se w := by
  unfold serializeSingle serializeSingleR preprocessSingleR
  cases hv : isMsgVal v with
  | false => simp
  | true => rw [h hv]

theorem lenSingle_congr (v : Val) (h : isMsgVal v = true → enc v = enc' v) (n : Nat) (t : PType) (se : Bool)
    (w : Option PType) : lenSingle S enc n t v se w = lenSingle S enc' n t v se w := by
  unfold lenSingle lenSingleR lenPreprocessedSingleR
  cases hv : isMsgVal v with
  | false => simp
  | true => rw [h hv]

theorem serializeSingle_bytesVal (b : Bytes) (n : Nat) (t : PType) (se : Bool) (w : Option PType) :
    serializeSingle S enc n t (bytesVal b) se w = serializeSingle S enc' n t (bytesVal b) se w :=
  serializeSingle_congr S enc enc' _ (fun h => by simp [bytesVal, isMsgVal] at h) n t se w

theorem lenSingle_bytesVal (b : Bytes) (n : Nat) (t : PType) (se : Bool) (w : Option PType) :
    lenSingle S enc n t (bytesVal b) se w = lenSingle S enc' n t (bytesVal b) se w :=
  lenSingle_congr S enc enc' _ (fun h => by simp [bytesVal, isMsgVal] at h) n t se w

/-- `enc` and `enc'` give the same bytes for every Message instance among `xs` -/
def AgreeL (xs : List Val) : Prop := ∀ x ∈ xs, isMsgVal x = true → enc x = enc' x

theorem dump_loop1_congr (f : FieldD) : ∀ (xs : List Val), AgreeL enc enc' xs → ∀ buf,
    Src.dump_field.loop1 S enc f xs buf = Src.dump_field.loop1 S enc' f xs buf
  | [], _, buf => by simp only [Src.dump_field.loop1]
  | x :: xs, h, buf => by
    have ih := dump_loop1_congr f xs (fun y hy => h y (List.mem_cons_of_mem _ hy))
    simp only [Src.dump_field.loop1, preprocessSingle_congr S enc enc' x (h x (List.mem_cons_self ..)), ih]

theorem dump_loop2_congr (f : FieldD) : ∀ (xs : List Val), AgreeL enc enc' xs → ∀ stream,
    Src.dump_field.loop2 S enc f xs stream = Src.dump_field.loop2 S enc' f xs stream
  | [], _, stream => by simp only [Src.dump_field.loop2]
  | x :: xs, h, stream => by
    have ih := dump_loop2_congr f xs (fun y hy => h y (List.mem_cons_of_mem _ hy))
    simp only [Src.dump_field.loop2, serializeSingle_congr S enc enc' x (h x (List.mem_cons_self ..)), ih]

theorem dump_loop3_congr (f : FieldD) : ∀ (kvs : List (Val × Val)),
    AgreeL enc enc' (kvs.map Prod.fst) → AgreeL enc enc' (kvs.map Prod.snd) → ∀ stream,
    Src.dump_field.loop3 S enc f kvs stream = Src.dump_field.loop3 S enc' f kvs stream
  | [], _, _, stream => by simp only [Src.dump_field.loop3]
  | (k, v) :: kvs, hk, hv, stream => by
    have ih := dump_loop3_congr f kvs (fun y hy => hk y (by simp only [List.map_cons]; exact List.mem_cons_of_mem _ hy))
      (fun y hy => hv y (by simp only [List.map_cons]; exact List.mem_cons_of_mem _ hy))
    simp only [Src.dump_field.loop3, serializeSingle_congr S enc enc' k (hk k (by simp)),
      serializeSingle_congr S enc enc' v (hv v (by simp)), serializeSingle_bytesVal S enc enc', ih]

theorem len_loop1_congr (f : FieldD) : ∀ (xs : List Val), AgreeL enc enc' xs → ∀ buf,
    Src.len_field.loop1 S enc f xs buf = Src.len_field.loop1 S enc' f xs buf
  | [], _, buf => by simp only [Src.len_field.loop1]
  | x :: xs, h, buf => by
    have ih := len_loop1_congr f xs (fun y hy => h y (List.mem_cons_of_mem _ hy))
    simp only [Src.len_field.loop1, preprocessSingle_congr S enc enc' x (h x (List.mem_cons_self ..)), ih]

theorem len_loop2_congr (f : FieldD) : ∀ (xs : List Val), AgreeL enc enc' xs → ∀ size,
    Src.len_field.loop2 S enc f xs size = Src.len_field.loop2 S enc' f xs size
  | [], _, size => by simp only [Src.len_field.loop2]
  | x :: xs, h, size => by
    have ih := len_loop2_congr f xs (fun y hy => h y (List.mem_cons_of_mem _ hy))
    simp only [Src.len_field.loop2, lenSingle_congr S enc enc' x (h x (List.mem_cons_self ..)), ih]

theorem len_loop3_congr (f : FieldD) : ∀ (kvs : List (Val × Val)),
    AgreeL enc enc' (kvs.map Prod.fst) → AgreeL enc enc' (kvs.map Prod.snd) → ∀ size,
    Src.len_field.loop3 S enc f kvs size = Src.len_field.loop3 S enc' f kvs size
  | [], _, _, size => by simp only [Src.len_field.loop3]
  | (k, v) :: kvs, hk, hv, size => by
    have ih := len_loop3_congr f kvs (fun y hy => hk y (by simp only [List.map_cons]; exact List.mem_cons_of_mem _ hy))
      (fun y hy => hv y (by simp only [List.map_cons]; exact List.mem_cons_of_mem _ hy))
    simp only [Src.len_field.loop3, serializeSingle_congr S enc enc' k (hk k (by simp)),
      serializeSingle_congr S enc enc' v (hv v (by simp)), lenSingle_bytesVal S enc enc', ih]

/-- the values the loop body may hand to `enc`: the attribute value itself, the items of a list,
    the keys and values of a dict -/
def subs (v : Val) : List Val :=
  v :: (listItems v ++ ((dictItems v).map Prod.fst ++ (dictItems v).map Prod.snd))

/-- the loop body gets past the default test for a Message instance (`value == default and not
    (selected_in_group or serialize_empty or include_default_value_for_oneof)` is false); for any
    other value `enc` is only reached through the items, which are covered anyway -/
def needed (f : FieldD) (incl : Bool) (v : Val) : Bool :=
  !(isMsgVal v && eqDefault S f.defKind v && !(f.group.isSome || f.optional || onWireOf v || incl))

theorem dump_field_congr (f : FieldD) (v : Val) (incl : Bool) (stream : Bytes)
    (h : needed S f incl v = true → AgreeL enc enc' (subs v)) :
    Src.dump_field S enc f (.value v) incl stream = Src.dump_field S enc' f (.value v) incl stream := by
  by_cases hn : needed S f incl v = true
  · have ha := h hn
    have h0 : isMsgVal v = true → enc v = enc' v := ha v (by simp [subs])
    have h1 : AgreeL enc enc' (listItems v) := fun x hx => ha x (by simp [subs, hx])
    have h2 : AgreeL enc enc' ((dictItems v).map Prod.fst) := fun x hx => ha x (by
      simp only [subs, List.mem_cons, List.mem_append]; exact Or.inr (Or.inr (Or.inl hx)))
    have h3 : AgreeL enc enc' ((dictItems v).map Prod.snd) := fun x hx => ha x (by
      simp only [subs, List.mem_cons, List.mem_append]; exact Or.inr (Or.inr (Or.inr hx)))
    simp only [Src.dump_field, serializeSingle_congr S enc enc' v h0, serializeSingle_bytesVal S enc enc',
      dump_loop1_congr S enc enc' f _ h1, dump_loop2_congr S enc enc' f _ h1, dump_loop3_congr S enc enc' f _ h2 h3]
  · cases v with
    | msg c sl ow unk cur =>
      have hs : (eqDefault S f.defKind (Val.msg c sl ow unk cur)
          && !(f.group.isSome || f.optional || ow || incl)) = true := by
        simpa [needed, isMsgVal, onWireOf] using hn
      simp only [Src.dump_field, isNone, isMessage, isMsgVal, serializedOnWire, eqFieldDefault, truthyGroup, metaGroup,
        metaOptional, Bool.false_eq_true, if_false, if_true, res_bind_ok, hs]
    | _ => simp [needed, isMsgVal] at hn

theorem len_field_congr (f : FieldD) (v : Val) (incl : Bool) (size : Int)
    (h : needed S f incl v = true → AgreeL enc enc' (subs v)) :
    Src.len_field S enc f (.value v) incl size = Src.len_field S enc' f (.value v) incl size := by
  by_cases hn : needed S f incl v = true
  · have ha := h hn
    have h0 : isMsgVal v = true → enc v = enc' v := ha v (by simp [subs])
    have h1 : AgreeL enc enc' (listItems v) := fun x hx => ha x (by simp [subs, hx])
    have h2 : AgreeL enc enc' ((dictItems v).map Prod.fst) := fun x hx => ha x (by
      simp only [subs, List.mem_cons, List.mem_append]; exact Or.inr (Or.inr (Or.inl hx)))
    have h3 : AgreeL enc enc' ((dictItems v).map Prod.snd) := fun x hx => ha x (by
      simp only [subs, List.mem_cons, List.mem_append]; exact Or.inr (Or.inr (Or.inr hx)))
    simp only [Src.len_field, lenSingle_congr S enc enc' v h0, serializeSingle_bytesVal S enc enc',
      lenSingle_bytesVal S enc enc',
      len_loop1_congr S enc enc' f _ h1, len_loop2_congr S enc enc' f _ h1, len_loop3_congr S enc enc' f _ h2 h3]
  · cases v with
    | msg c sl ow unk cur =>
      have hs : (eqDefault S f.defKind (Val.msg c sl ow unk cur)
          && !(f.group.isSome || f.optional || ow || incl)) = true := by
        simpa [needed, isMsgVal, onWireOf] using hn
      simp only [Src.len_field, isNone, isMessage, isMsgVal, serializedOnWire, eqFieldDefault, truthyGroup, metaGroup,
        metaOptional, Bool.false_eq_true, if_false, if_true, res_bind_ok, hs]
    | _ => simp [needed, isMsgVal] at hn

end congr

/-! ### the field loops with `enc := dumpVal S` are the model's `dumpSlots` / `lenSlots` -/

theorem drop_cons {α : Type} : ∀ (l : List α) (i : Nat) (a : α) (t : List α), l.drop i = a :: t →
    l[i]? = some a ∧ l.drop (i + 1) = t
  | [], i, a, t, h => by simp at h
  | b :: l, 0, a, t, h => by simp only [List.drop_zero, List.cons.injEq] at h; simp [h.1, h.2]
  | b :: l, i + 1, a, t, h => by
    simp only [List.drop_succ_cons] at h
    have := drop_cons l i a t h
    simpa using this

/-- one raw slot per field, every slot inside the guard of `dump_field_eq` -/
def slotsGuardB : List FieldD → List Val → Bool
  | [], [] => true
  | f :: fs, v :: vs => dynOk f v && slotsGuardB fs vs
  | _, _ => false

theorem getD_of_getElem? (sl : List Val) (i : Nat) (v : Val) (h : sl[i]? = some v) : sl.getD i .ph = v := by
  simp [List.getD, h]

theorem dump_loop_model (S : Schema) (hS : WfSchemaOpt S) (fs : List FieldD) (st : MState) :
    ∀ (rfs : List FieldD) (rsl : List Val) (i : Nat) (stream : Bytes),
      fs.drop i = rfs → st.slots.drop i = rsl → slotsGuardB rfs rsl = true →
      Src.msg_dump.loop1 S (dumpVal S) st (Msg.itemsFrom i rfs) stream = appR stream (dumpSlots S fs st.cur i rsl)
  | [], [], i, stream, _, _, _ => by rw [Msg.itemsFrom, Src.msg_dump.loop1, dumpSlots]; simp
  | [], v :: rsl, i, stream, _, _, hg => by simp [slotsGuardB] at hg
  | f :: rfs, [], i, stream, _, _, hg => by simp [slotsGuardB] at hg
  | f :: rfs, v :: rsl, i, stream, h1, h2, hg => by
    simp only [slotsGuardB, Bool.and_eq_true] at hg
    obtain ⟨hf, hfs⟩ := drop_cons fs i f rfs h1
    obtain ⟨hv, hvs⟩ := drop_cons st.slots i v rsl h2
    rw [Msg.itemsFrom, Src.msg_dump.loop1, dumpSlots]
    simp only [hf, Msg.getattrOf, getD_of_getElem? _ _ _ hv, include_default_eq,
      dump_field_eq S hS f _ _ v stream hg.1]
    cases dumpSlot S f (hidden f i st.cur) (selectedInGroup f i st.cur) v with
    | error e => rfl
    | ok a =>
      simp only [appR_ok, res_bind_ok, Bp.bind_ok]
      rw [dump_loop_model S hS fs st rfs rsl (i + 1) (stream ++ a) hfs hvs hg.2]
      cases dumpSlots S fs st.cur (i + 1) rsl <;> simp

theorem len_loop_model (S : Schema) (hS : WfSchemaOpt S) (fs : List FieldD) (st : MState) :
    ∀ (rfs : List FieldD) (rsl : List Val) (i : Nat) (size : Int),
      fs.drop i = rfs → st.slots.drop i = rsl → slotsGuardB rfs rsl = true →
      Src.msg_len.loop1 S (dumpVal S) st (Msg.itemsFrom i rfs) size = addR size (lenSlots S fs st.cur i rsl)
  | [], [], i, size, _, _, _ => by rw [Msg.itemsFrom, Src.msg_len.loop1, lenSlots]; simp
  | [], v :: rsl, i, size, _, _, hg => by simp [slotsGuardB] at hg
  | f :: rfs, [], i, size, _, _, hg => by simp [slotsGuardB] at hg
  | f :: rfs, v :: rsl, i, size, h1, h2, hg => by
    simp only [slotsGuardB, Bool.and_eq_true] at hg
    obtain ⟨hf, hfs⟩ := drop_cons fs i f rfs h1
    obtain ⟨hv, hvs⟩ := drop_cons st.slots i v rsl h2
    rw [Msg.itemsFrom, Src.msg_len.loop1, lenSlots]
    simp only [hf, Msg.getattrOf, getD_of_getElem? _ _ _ hv, include_default_eq,
      len_field_eq S hS f _ _ v size hg.1]
    cases lenSlot S f (hidden f i st.cur) (selectedInGroup f i st.cur) v with
    | error e => rfl
    | ok a =>
      simp only [addR_ok, res_bind_ok, Bp.bind_ok]
      rw [len_loop_model S hS fs st rfs rsl (i + 1) (size + a) hfs hvs hg.2]
      cases lenSlots S fs st.cur (i + 1) rsl with
      | error e => rfl
      | ok b => simp only [addR_ok]; congr 1; push_cast; omega

/-! ### the whole methods with `enc := dumpVal S` -/

/-- `self.dump(stream)` (no delimiter) appends `bytes(self)` of the model -/
theorem msg_dump_model (S : Schema) (hS : WfSchemaOpt S) (fuel : Nat) (c : Nat) (st : MState) (stream : Bytes)
    (hg : slotsGuardB (fieldsOf S c) st.slots = true) :
    Src.msg_dump fuel S (dumpVal S) (fieldsOf S c) st stream 0 = appR stream (dumpVal S (st.toVal c)) := by
  have h0 : (decide ((0 : Int) = -1)) = false := by decide
  unfold Src.msg_dump
  simp only [h0, Bool.false_eq_true, if_false, Msg.metaItems]
  rw [dump_loop_model S hS (fieldsOf S c) st (fieldsOf S c) st.slots 0 stream rfl rfl hg, MState.toVal, dumpVal_msg]
  cases dumpSlots S (fieldsOf S c) st.cur 0 st.slots <;> simp [Msg.unknownFields]

theorem msg_bytes_model (S : Schema) (hS : WfSchemaOpt S) (fuel : Nat) (c : Nat) (st : MState)
    (hg : slotsGuardB (fieldsOf S c) st.slots = true) :
    Src.msg_bytes fuel S (dumpVal S) (fieldsOf S c) st = ofR (dumpVal S (st.toVal c)) := by
  unfold Src.msg_bytes
  simp only [msg_dump_model S hS fuel c st [] hg]
  cases dumpVal S (st.toVal c) <;> simp

theorem msg_len_model (S : Schema) (hS : WfSchemaOpt S) (fuel : Nat) (c : Nat) (st : MState)
    (hg : slotsGuardB (fieldsOf S c) st.slots = true) :
    Src.msg_len fuel S (dumpVal S) (fieldsOf S c) st
      = ofR ((lenVal S (st.toVal c)).map fun (n : Nat) => (n : Int)) := by
  unfold Src.msg_len
  simp only [Msg.metaItems]
  rw [len_loop_model S hS (fieldsOf S c) st (fieldsOf S c) st.slots 0 0 rfl rfl hg, MState.toVal, lenVal]
  cases lenSlots S (fieldsOf S c) st.cur 0 st.slots with
  | error e => rfl
  | ok n => simp [Msg.unknownFields, Py.len]

/-- `self.dump(stream, SIZE_DELIMITED)`: the varint of `len(self)`, then the fields -/
theorem msg_dump_delimited_model (S : Schema) (hS : WfSchemaOpt S) (fuel : Nat) (c : Nat) (st : MState) (stream : Bytes)
    (hg : slotsGuardB (fieldsOf S c) st.slots = true)
    (hf : ∀ bs, dumpVal S (st.toVal c) = .ok bs → bs.length + 2 ^ 64 < fuel) :
    Src.msg_dump fuel S (dumpVal S) (fieldsOf S c) st stream (-1) = appR stream (dumpDelimited S (st.toVal c)) := by
  have h1 : (decide ((-1 : Int) = -1)) = true := by decide
  have hnodelim := msg_dump_model S hS fuel c st
  unfold Src.msg_dump at hnodelim ⊢
  have h0 : (decide ((0 : Int) = -1)) = false := by decide
  simp only [h0, Bool.false_eq_true, if_false] at hnodelim
  simp only [h1, if_true, msg_len_model S hS fuel c st hg]
  unfold dumpDelimited dumpDelimitedWith
  rw [lenVal_eq]
  cases hd : dumpVal S (st.toVal c) with
  | error e => rfl
  | ok body =>
    have hfuel := hf body hd
    simp only [Bp.map_ok, ofR_ok, res_bind_ok, Bp.bind_ok]
    rw [SrcTie.dump_varint_eq _ stream fuel (by simpa using hfuel), dumpVarint_nat]
    simp only [ofR_ok, res_bind_ok, Bp.bind_ok]
    rw [hnodelim (stream ++ encNat body.length) hg, hd]
    simp


/-! ### dependence of the whole methods on `enc` -/

section congr2
variable (S : Schema) (enc enc' : Val → R Bytes)

/-- `enc` and `enc'` agree wherever the loop bodies of the fields `items` of `st` may call them -/
def FieldsAgree (st : MState) (items : List (Nat × FieldD)) : Prop :=
  ∀ p ∈ items, ∀ v, Msg.getattrOf S st p.1 p.2 = .value v →
    needed S p.2 (Src.msg_include_default st p.1 p.2) v = true → AgreeL enc enc' (subs v)

theorem dump_field_congr_got (f : FieldD) (got : Got) (incl : Bool) (stream : Bytes)
    (h : ∀ v, got = .value v → needed S f incl v = true → AgreeL enc enc' (subs v)) :
    Src.dump_field S enc f got incl stream = Src.dump_field S enc' f got incl stream := by
  cases got with
  | attrError => simp only [Src.dump_field]
  | value v => exact dump_field_congr S enc enc' f v incl stream (h v rfl)

theorem len_field_congr_got (f : FieldD) (got : Got) (incl : Bool) (size : Int)
    (h : ∀ v, got = .value v → needed S f incl v = true → AgreeL enc enc' (subs v)) :
    Src.len_field S enc f got incl size = Src.len_field S enc' f got incl size := by
  cases got with
  | attrError => simp only [Src.len_field]
  | value v => exact len_field_congr S enc enc' f v incl size (h v rfl)

theorem dump_loop_congr (st : MState) : ∀ (items : List (Nat × FieldD)), FieldsAgree S enc enc' st items → ∀ stream,
    Src.msg_dump.loop1 S enc st items stream = Src.msg_dump.loop1 S enc' st items stream
  | [], _, stream => by simp only [Src.msg_dump.loop1]
  | (i, f) :: items, h, stream => by
    have ih := dump_loop_congr st items (fun p hp => h p (List.mem_cons_of_mem _ hp))
    simp only [Src.msg_dump.loop1, dump_field_congr_got S enc enc' f _ _ _ (h (i, f) (List.mem_cons_self ..)), ih]

theorem len_loop_congr (st : MState) : ∀ (items : List (Nat × FieldD)), FieldsAgree S enc enc' st items → ∀ size,
    Src.msg_len.loop1 S enc st items size = Src.msg_len.loop1 S enc' st items size
  | [], _, size => by simp only [Src.msg_len.loop1]
  | (i, f) :: items, h, size => by
    have ih := len_loop_congr st items (fun p hp => h p (List.mem_cons_of_mem _ hp))
    simp only [Src.msg_len.loop1, len_field_congr_got S enc enc' f _ _ _ (h (i, f) (List.mem_cons_self ..)), ih]

theorem msg_len_congr (fuel : Nat) (fs : List FieldD) (st : MState) (h : FieldsAgree S enc enc' st (Msg.metaItems fs)) :
    Src.msg_len fuel S enc fs st = Src.msg_len fuel S enc' fs st := by
  simp only [Src.msg_len, len_loop_congr S enc enc' st _ h]

theorem msg_dump_congr (fuel : Nat) (fs : List FieldD) (st : MState) (stream : Bytes) (delimit : Int)
    (h : FieldsAgree S enc enc' st (Msg.metaItems fs)) :
    Src.msg_dump fuel S enc fs st stream delimit = Src.msg_dump fuel S enc' fs st stream delimit := by
  simp only [Src.msg_dump, dump_loop_congr S enc enc' st _ h, msg_len_congr S enc enc' fuel fs st h]

theorem msg_bytes_congr (fuel : Nat) (fs : List FieldD) (st : MState) (h : FieldsAgree S enc enc' st (Msg.metaItems fs)) :
    Src.msg_bytes fuel S enc fs st = Src.msg_bytes fuel S enc' fs st := by
  simp only [Src.msg_bytes, msg_dump_congr S enc enc' fuel fs st _ _ h]

end congr2

/-! ### the guard and the nesting depth of a value -/

mutual
/-- nesting depth of Message instances in a value -/
def depthOf : Val → Nat
  | .msg _ sl _ _ _ => depthList sl + 1
  | .list xs => depthList xs
  | .dict ks vs => max (depthList ks) (depthList vs)
  | _ => 0
def depthList : List Val → Nat
  | [] => 0
  | x :: xs => max (depthOf x) (depthList xs)
end

mutual
/-- the guard of `dump_field_eq` at every nesting level, and one raw slot per field (decidable) -/
def msgDynOk (S : Schema) : Val → Bool
  | .msg c sl _ _ _ => slotsDynOk S (fieldsOf S c) sl
  | .list xs => allDynOk S xs
  | .dict ks vs => allDynOk S ks && allDynOk S vs
  | _ => true
def slotsDynOk (S : Schema) : List FieldD → List Val → Bool
  | [], [] => true
  | f :: fs, v :: vs => dynOk f v && msgDynOk S v && slotsDynOk S fs vs
  | _, _ => false
def allDynOk (S : Schema) : List Val → Bool
  | [] => true
  | x :: xs => msgDynOk S x && allDynOk S xs
end

theorem depth_mem : ∀ (xs : List Val) (x : Val), x ∈ xs → depthOf x ≤ depthList xs
  | [], x, h => by simp at h
  | y :: ys, x, h => by
    rw [depthList]
    rcases List.mem_cons.mp h with h | h
    · subst h; omega
    · have := depth_mem ys x h; omega

theorem allDynOk_mem (S : Schema) : ∀ (xs : List Val) (x : Val), allDynOk S xs = true → x ∈ xs → msgDynOk S x = true
  | [], x, _, h => by simp at h
  | y :: ys, x, hg, h => by
    rw [allDynOk, Bool.and_eq_true] at hg
    rcases List.mem_cons.mp h with h | h
    · subst h; exact hg.1
    · exact allDynOk_mem S ys x hg.2 h

theorem subs_depth (v x : Val) (h : x ∈ subs v) : depthOf x ≤ depthOf v := by
  simp only [subs, List.mem_cons, List.mem_append, List.mem_map] at h
  rcases h with h | h | h | h
  · subst h; exact Nat.le_refl _
  · cases v with
    | list xs => rw [depthOf]; exact depth_mem xs x h
    | _ => simp [listItems] at h
  · obtain ⟨kv, hkv, rfl⟩ := h
    cases v with
    | dict ks vs =>
      rw [depthOf]
      have := depth_mem ks kv.1 (List.of_mem_zip (by simpa [dictItems] using hkv)).1
      omega
    | _ => simp [dictItems] at hkv
  · obtain ⟨kv, hkv, rfl⟩ := h
    cases v with
    | dict ks vs =>
      rw [depthOf]
      have := depth_mem vs kv.2 (List.of_mem_zip (by simpa [dictItems] using hkv)).2
      omega
    | _ => simp [dictItems] at hkv

theorem subs_dynOk (S : Schema) (v x : Val) (hg : msgDynOk S v = true) (h : x ∈ subs v) : msgDynOk S x = true := by
  simp only [subs, List.mem_cons, List.mem_append, List.mem_map] at h
  rcases h with h | h | h | h
  · subst h; exact hg
  · cases v with
    | list xs => rw [msgDynOk] at hg; exact allDynOk_mem S xs x hg h
    | _ => simp [listItems] at h
  · obtain ⟨kv, hkv, rfl⟩ := h
    cases v with
    | dict ks vs =>
      rw [msgDynOk, Bool.and_eq_true] at hg
      exact allDynOk_mem S ks kv.1 hg.1 (List.of_mem_zip (by simpa [dictItems] using hkv)).1
    | _ => simp [dictItems] at hkv
  · obtain ⟨kv, hkv, rfl⟩ := h
    cases v with
    | dict ks vs =>
      rw [msgDynOk, Bool.and_eq_true] at hg
      exact allDynOk_mem S vs kv.2 hg.2 (List.of_mem_zip (by simpa [dictItems] using hkv)).2
    | _ => simp [dictItems] at hkv

theorem slotsDynOk_guard (S : Schema) : ∀ (fs : List FieldD) (sl : List Val), slotsDynOk S fs sl = true →
    slotsGuardB fs sl = true
  | [], [], _ => rfl
  | [], v :: sl, h => by simp [slotsDynOk] at h
  | f :: fs, [], h => by simp [slotsDynOk] at h
  | f :: fs, v :: sl, h => by
    rw [slotsDynOk, Bool.and_eq_true, Bool.and_eq_true] at h
    rw [slotsGuardB, Bool.and_eq_true]
    exact ⟨h.1.1, slotsDynOk_guard S fs sl h.2⟩

theorem slotsDynOk_get (S : Schema) : ∀ (fs : List FieldD) (sl : List Val), slotsDynOk S fs sl = true →
    ∀ (i : Nat) (f : FieldD), fs[i]? = some f → ∃ v, sl[i]? = some v ∧ msgDynOk S v = true ∧ depthOf v ≤ depthList sl
  | [], _, _, i, f, hf => by simp at hf
  | f0 :: fs, [], h, _, _, _ => by simp [slotsDynOk] at h
  | f0 :: fs, v :: sl, h, 0, f, hf => by
    rw [slotsDynOk, Bool.and_eq_true, Bool.and_eq_true] at h
    exact ⟨v, rfl, h.1.2, by rw [depthList]; omega⟩
  | f0 :: fs, v :: sl, h, i + 1, f, hf => by
    rw [slotsDynOk, Bool.and_eq_true, Bool.and_eq_true] at h
    obtain ⟨w, h1, h2, h3⟩ := slotsDynOk_get S fs sl h.2 i f (by simpa using hf)
    exact ⟨w, by simpa using h1, h2, by rw [depthList]; omega⟩

theorem itemsFrom_mem : ∀ (fs : List FieldD) (j : Nat) (p : Nat × FieldD), p ∈ Msg.itemsFrom j fs →
    j ≤ p.1 ∧ fs[p.1 - j]? = some p.2
  | [], j, p, h => by simp [Msg.itemsFrom] at h
  | f :: fs, j, p, h => by
    rw [Msg.itemsFrom] at h
    rcases List.mem_cons.mp h with h | h
    · subst h; simp
    · obtain ⟨h1, h2⟩ := itemsFrom_mem fs (j + 1) p h
      refine ⟨by omega, ?_⟩
      have : p.1 - j = (p.1 - (j + 1)) + 1 := by omega
      rw [this]; simpa using h2

theorem metaItems_mem (fs : List FieldD) (p : Nat × FieldD) (h : p ∈ Msg.metaItems fs) : fs[p.1]? = some p.2 := by
  have := (itemsFrom_mem fs 0 p h).2
  simpa using this

/-! ### the lazily materialised default -/

/-- a Message instance among what the loop body sees of a default value is the fresh instance of
    the class of a message-typed field -/
theorem subs_default (S : Schema) (f : FieldD) (x : Val) (h : x ∈ subs (defaultOf S f)) (hm : isMsgVal x = true) :
    ∃ c, f.defKind = .msg c ∧ defaultOf S f = fresh S c ∧ x = fresh S c := by
  unfold defaultOf at h ⊢
  cases hk : f.defKind with
  | msg c =>
    rw [hk] at h
    simp only [defaultOfKind, fresh, subs, listItems, dictItems, List.map_nil, List.append_nil, List.mem_singleton] at h
    exact ⟨c, rfl, rfl, by rw [h]; rfl⟩
  | _ =>
    rw [hk] at h
    simp only [defaultOfKind, subs, listItems, dictItems, List.zip_nil_left, List.map_nil, List.append_nil,
      List.mem_singleton] at h
    subst h
    simp [isMsgVal] at hm

theorem needed_default (S : Schema) (hS : WfSchemaOpt S) (f : FieldD) (c : Nat) (hk : f.defKind = .msg c)
    (hg : f.group = Option.none) (ho : f.optional = false) :
    needed S f false (fresh S c) = false := by
  have h1 := eqDefault_fresh S c hS
  have h2 : isMsgVal (fresh S c) = true := rfl
  have h3 : onWireOf (fresh S c) = false := rfl
  simp [needed, hk, h1, h2, h3, hg, ho]


/-! ### the knot -/

theorem dumpVal_nonmsg (S : Schema) (v : Val) (h : isMsgVal v = false) : dumpVal S v = .error .type := by
  cases v with
  | msg c sl ow unk cur => simp [isMsgVal] at h
  | _ => rw [dumpVal]; all_goals (intros; contradiction)

theorem lenVal_nonmsg (S : Schema) (v : Val) (h : isMsgVal v = false) : lenVal S v = .error .type := by
  cases v with
  | msg c sl ow unk cur => simp [isMsgVal] at h
  | _ => rw [lenVal]; all_goals (intros; contradiction)

/-- `bytes(x)` as the intrinsics of the loop bodies see it with `depth` nesting levels left -/
def encAt (fuel : Nat) (S : Schema) (depth : Nat) : Val → R Bytes := fun x => Msg.toR (Src.value_bytes fuel S depth x)

@[simp] theorem toR_ofR {α : Type} (r : R α) : Msg.toR (ofR r) = r := by cases r <;> rfl

theorem value_bytes_msg (fuel : Nat) (S : Schema) (k c : Nat) (sl : List Val) (ow : Bool) (unk : Bytes) (cur : List (Option Nat)) :
    Src.value_bytes fuel S (k + 1) (.msg c sl ow unk cur)
      = Src.msg_bytes fuel S (encAt fuel S k) (fieldsOf S c) { slots := sl, onWire := ow, unknown := unk, cur := cur } := by
  rw [Src.value_bytes]; rfl

theorem hidden_replicate (f : FieldD) (i n : Nat) : hidden f i (List.replicate n Option.none) = f.group.isSome := by
  unfold hidden
  cases f.group with
  | none => rfl
  | some g =>
    have : (List.replicate n (Option.none : Option Nat)).getD g Option.none = Option.none := by
      simp only [List.getD, List.getElem?_replicate]; split <;> rfl
    simp [this]

theorem freshSlots_guard : ∀ fs : List FieldD,
    slotsGuardB fs (fs.map fun f => if f.optional then Val.none else Val.ph) = true
  | [] => rfl
  | f :: fs => by
    rw [List.map_cons, slotsGuardB, freshSlots_guard fs]
    cases f.optional <;> simp [dynOk]

/-- **`bytes(<fresh instance>)` as written is empty at every nesting budget ≥ 1**, whatever the
    nested calls would return: every slot is None, hidden, or a default that the default test skips -/
theorem value_bytes_fresh (S : Schema) (hS : WfSchemaOpt S) (fuel k c : Nat) :
    Src.value_bytes fuel S (k + 1) (fresh S c) = .ok [] := by
  unfold fresh
  rw [value_bytes_msg]
  have hag : FieldsAgree S (encAt fuel S k) (dumpVal S)
      { slots := (fieldsOf S c).map fun f => if f.optional then Val.none else Val.ph, onWire := false, unknown := [],
        cur := List.replicate (groupsOf S c) Option.none } (Msg.metaItems (fieldsOf S c)) := by
    intro p hp v hgot hneed x hx hmsg
    have hf := metaItems_mem _ p hp
    have hsl : ((fieldsOf S c).map fun f => if f.optional then Val.none else Val.ph).getD p.1 .ph
        = if p.2.optional then Val.none else Val.ph := by
      simp [List.getD, List.getElem?_map, hf]
    simp only [Msg.getattrOf, hidden_replicate, hsl] at hgot
    rw [include_default_eq] at hneed
    cases hgp : p.2.group with
    | some g => simp [hgp, getattrField] at hgot
    | none =>
      have hsel : selectedInGroup p.2 p.1 (List.replicate (groupsOf S c) Option.none) = false := by
        simp [selectedInGroup, hgp]
      simp only [hgp, Option.isSome_none] at hgot
      cases ho : p.2.optional with
      | true =>
        simp only [ho, if_true, getattrField, Bool.false_eq_true, if_false, Got.value.injEq] at hgot
        subst hgot
        simp only [subs, listItems, dictItems, List.map_nil, List.append_nil, List.mem_singleton] at hx
        subst hx; simp [isMsgVal] at hmsg
      | false =>
        simp only [ho, Bool.false_eq_true, if_false, getattrField, Got.value.injEq] at hgot
        subst hgot
        obtain ⟨c', hk, hdef, hx'⟩ := subs_default S p.2 x hx hmsg
        rw [hdef, hsel, needed_default S hS p.2 c' hk hgp ho] at hneed
        cases hneed
  rw [msg_bytes_congr S _ _ fuel _ _ hag, msg_bytes_model S hS fuel c _ (freshSlots_guard _)]
  have := dump_fresh S c
  unfold fresh at this
  simp only [MState.toVal, this, ofR_ok]

/-- the nested calls agree with the model on everything the loop bodies of a guarded instance hand
    them, once they do so on every guarded value of smaller depth -/
theorem enc_agree (S : Schema) (hS : WfSchemaOpt S) (fuel k : Nat) (hk : 0 < k)
    (ih : ∀ x, msgDynOk S x = true → depthOf x < k → Src.value_bytes fuel S k x = ofR (dumpVal S x))
    (c : Nat) (st : MState) (hg : slotsDynOk S (fieldsOf S c) st.slots = true) (hd : depthList st.slots < k) :
    FieldsAgree S (encAt fuel S k) (dumpVal S) st (Msg.metaItems (fieldsOf S c)) := by
  intro p hp v hgot hneed x hx hmsg
  have hf := metaItems_mem _ p hp
  obtain ⟨w, hw, hwg, hwd⟩ := slotsDynOk_get S _ _ hg p.1 p.2 hf
  simp only [Msg.getattrOf, getD_of_getElem? _ _ _ hw] at hgot
  cases hh : hidden p.2 p.1 st.cur with
  | true => simp [hh, getattrField] at hgot
  | false =>
    rw [hh] at hgot
    by_cases hph : w = .ph
    · subst hph
      simp only [getattrField, Bool.false_eq_true, if_false, Got.value.injEq] at hgot
      subst hgot
      obtain ⟨c', _, _, hx'⟩ := subs_default S p.2 x hx hmsg
      subst hx'
      obtain ⟨j, rfl⟩ : ∃ j, k = j + 1 := ⟨k - 1, by omega⟩
      simp only [encAt, value_bytes_fresh S hS fuel j c', dump_fresh, Msg.toR]
    · rw [getattr_set S p.2 w hph, Got.value.injEq] at hgot
      subst hgot
      have h1 := subs_depth _ _ hx
      have h2 := subs_dynOk S _ _ hwg hx
      simp only [encAt, ih x h2 (by omega), toR_ofR]

/-- **`bytes(m)` as written is the model's `dumpVal`**, for every guarded value and every nesting
    budget above its depth -/
theorem value_bytes_eq (S : Schema) (hS : WfSchemaOpt S) (fuel : Nat) : ∀ (depth : Nat) (m : Val),
    msgDynOk S m = true → depthOf m < depth → Src.value_bytes fuel S depth m = ofR (dumpVal S m)
  | 0, _, _, hd => by omega
  | k + 1, m, hg, hd => by
    cases m with
    | msg c sl ow unk cur =>
      rw [msgDynOk] at hg
      rw [depthOf] at hd
      have hag := enc_agree S hS fuel k (by omega) (value_bytes_eq S hS fuel k) c
        { slots := sl, onWire := ow, unknown := unk, cur := cur } hg (by simp only [] at hd ⊢; omega)
      rw [value_bytes_msg, msg_bytes_congr S _ _ fuel _ _ hag, msg_bytes_model S hS fuel c _ (slotsDynOk_guard S _ _ hg)]
      rfl
    | _ => rw [Src.value_bytes, dumpVal_nonmsg S _ rfl]; rfl

/-- the same agreement, for the methods that call `bytes(<nested>)` with the full budget -/
theorem enc_agree_top (S : Schema) (hS : WfSchemaOpt S) (fuel depth c : Nat) (sl : List Val) (ow : Bool) (unk : Bytes)
    (cur : List (Option Nat)) (hg : msgDynOk S (.msg c sl ow unk cur) = true) (hd : depthOf (.msg c sl ow unk cur) ≤ depth) :
    FieldsAgree S (encAt fuel S depth) (dumpVal S) { slots := sl, onWire := ow, unknown := unk, cur := cur }
      (Msg.metaItems (fieldsOf S c)) := by
  rw [msgDynOk] at hg
  rw [depthOf] at hd
  exact enc_agree S hS fuel depth (by omega) (value_bytes_eq S hS fuel depth) c _ hg (by simp only [] at hd ⊢; omega)

/-- **`len(m)` as written is the model's `lenVal`** -/
theorem value_len_eq (S : Schema) (hS : WfSchemaOpt S) (fuel depth : Nat) (m : Val)
    (hg : msgDynOk S m = true) (hd : depthOf m ≤ depth) :
    Src.value_len fuel S depth m = ofR ((lenVal S m).map fun (n : Nat) => (n : Int)) := by
  cases m with
  | msg c sl ow unk cur =>
    have hag := enc_agree_top S hS fuel depth c sl ow unk cur hg hd
    rw [msgDynOk] at hg
    unfold Src.value_len
    simp only [Msg.onMessage]
    rw [show (fun x => Msg.toR (Src.value_bytes fuel S depth x)) = encAt fuel S depth from rfl,
      msg_len_congr S _ _ fuel _ _ hag, msg_len_model S hS fuel c _ (slotsDynOk_guard S _ _ hg)]
    rfl
  | _ => unfold Src.value_len; rw [lenVal_nonmsg S _ rfl]; rfl

/-- **`m.dump(stream)` as written appends the model's `dumpVal`** -/
theorem value_dump_eq (S : Schema) (hS : WfSchemaOpt S) (fuel depth : Nat) (m : Val) (stream : Bytes)
    (hg : msgDynOk S m = true) (hd : depthOf m ≤ depth) :
    Src.value_dump fuel S depth m stream 0 = appR stream (dumpVal S m) := by
  cases m with
  | msg c sl ow unk cur =>
    have hag := enc_agree_top S hS fuel depth c sl ow unk cur hg hd
    rw [msgDynOk] at hg
    unfold Src.value_dump
    simp only [Msg.onMessage]
    rw [show (fun x => Msg.toR (Src.value_bytes fuel S depth x)) = encAt fuel S depth from rfl,
      msg_dump_congr S _ _ fuel _ _ _ _ hag, msg_dump_model S hS fuel c _ _ (slotsDynOk_guard S _ _ hg)]
    rfl
  | _ => unfold Src.value_dump; rw [dumpVal_nonmsg S _ rfl]; rfl

/-- **`m.dump(stream, SIZE_DELIMITED)` as written appends the model's `dumpDelimited`**: the varint
    of `len(m)`, then the fields (`hf`: the `while` loop of `dump_varint` has enough fuel) -/
theorem value_dump_delimited_eq (S : Schema) (hS : WfSchemaOpt S) (fuel depth : Nat) (m : Val) (stream : Bytes)
    (hg : msgDynOk S m = true) (hd : depthOf m ≤ depth)
    (hf : ∀ bs, dumpVal S m = .ok bs → bs.length + 2 ^ 64 < fuel) :
    Src.value_dump fuel S depth m stream (-1) = appR stream (dumpDelimited S m) := by
  cases m with
  | msg c sl ow unk cur =>
    have hag := enc_agree_top S hS fuel depth c sl ow unk cur hg hd
    rw [msgDynOk] at hg
    unfold Src.value_dump
    simp only [Msg.onMessage]
    rw [show (fun x => Msg.toR (Src.value_bytes fuel S depth x)) = encAt fuel S depth from rfl,
      msg_dump_congr S _ _ fuel _ _ _ _ hag,
      msg_dump_delimited_model S hS fuel c { slots := sl, onWire := ow, unknown := unk, cur := cur } _
        (slotsDynOk_guard S _ _ hg) hf]
    rfl
  | _ => unfold Src.value_dump dumpDelimited; rw [lenVal_nonmsg S _ rfl]; rfl

/-- `SerializeToString`, `__getstate__` and the argument `__reduce__` hands to `FromString` are `bytes(self)` -/
theorem value_serialize_eq (fuel : Nat) (S : Schema) (k : Nat) (m : Val) :
    Src.value_serialize_to_string fuel S k m = Src.value_bytes fuel S (k + 1) m
    ∧ Src.value_getstate fuel S k m = Src.value_bytes fuel S (k + 1) m
    ∧ Src.value_reduce fuel S k m = Src.value_bytes fuel S (k + 1) m := by
  rw [Src.value_bytes]
  unfold Src.value_serialize_to_string Src.value_getstate Src.value_reduce Src.msg_serialize_to_string Src.msg_getstate
    Src.msg_reduce
  refine ⟨?_, ?_, ?_⟩ <;> cases m <;> simp only [Msg.onMessage] <;>
    (try (cases Src.msg_bytes fuel S _ _ _ <;> rfl))


end Bp.SrcTieMsg
