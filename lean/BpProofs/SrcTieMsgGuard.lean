import BpProofs.SrcTieMsg
import BpProofs.Typed
import BpProofs.OkComplete
/-
  The guard `msgDynOk` of the whole-method ties (BpProofs/SrcTieMsg.lean) holds of every value the
  property theorems quantify over:
    * every TYPED message of a well-formed schema (`msgTypedB`, either strictness — the typing
      judgement of C17, which `parse` establishes: `C17.ok_welltyped`);
    * every message in the domain `MsgOk` of the round-trip theorems (C01), through the checker
      `msgOkB` (`msgOkB_iff`).
-/
set_option linter.unusedSimpArgs false
set_option linter.unusedVariables false
namespace Bp.SrcTieMsg
open Bp Bp.Py Gen Bp.SrcTieDump

theorem leaf_dynOk (s : Bool) (S : Schema) (f : FieldD) (v : Val) (h : leafTypedB s f v = true) :
    msgDynOk S v = true ∧ isMsgVal v = false := by
  cases v <;> first | (simp [leafTypedB] at h; done) | exact ⟨by rw [msgDynOk]; all_goals (intros; contradiction), rfl⟩

mutual
theorem typed_slot_dyn (s : Bool) (S : Schema) (hS : WfSchemaT S) (f : FieldD) :
    ∀ v : Val, slotTypedB s S f v = true → msgDynOk S v = true
  | .list xs, h => by
    rw [slotTypedB] at h
    simp only [Bool.and_eq_true] at h
    rw [msgDynOk]; exact typed_items_dyn s S hS f xs h.2
  | .dict ks vs, h => by
    rw [slotTypedB] at h
    simp only [Bool.and_eq_true] at h
    rw [msgDynOk, Bool.and_eq_true]
    exact ⟨typed_items_dyn s S hS _ ks h.1.2, typed_items_dyn s S hS _ vs h.2⟩
  | .msg c sl ow unk cur, h => by
    rw [slotTypedB] at h
    simp only [Bool.and_eq_true] at h
    cases hd : S[c]? with
    | none => rw [hd] at h; simp at h
    | some d =>
      rw [hd] at h
      simp only [Bool.and_eq_true] at h
      have hfo : fieldsOf S c = d.fields := by simp [fieldsOf, hd]
      rw [msgDynOk, hfo]
      exact typed_slots_dyn s S hS d.fields sl (wfSchema_class S hS c d hd) h.2.2
  | .ph, _ | .none, _ | .int _, _ | .bool _, _ | .f32 _, _ | .f64 _, _ | .str _, _ | .byt _, _ | .ts _, _ | .dur _, _ => by
    rw [msgDynOk]; all_goals (intros; contradiction)

theorem typed_items_dyn (s : Bool) (S : Schema) (hS : WfSchemaT S) (f : FieldD) :
    ∀ xs : List Val, itemsTypedB s S f xs = true → allDynOk S xs = true
  | [], _ => by rw [allDynOk]
  | .msg c sl ow unk cur :: xs, h => by
    rw [itemsTypedB] at h
    simp only [Bool.and_eq_true] at h
    rw [allDynOk, Bool.and_eq_true]
    refine ⟨?_, typed_items_dyn s S hS f xs h.2⟩
    cases hd : S[c]? with
    | none => rw [hd] at h; simp at h
    | some d =>
      rw [hd] at h
      simp only [Bool.and_eq_true] at h
      have hfo : fieldsOf S c = d.fields := by simp [fieldsOf, hd]
      rw [msgDynOk, hfo]
      exact typed_slots_dyn s S hS d.fields sl (wfSchema_class S hS c d hd) h.1.2.2
  | .ph :: xs, h | .none :: xs, h | .list _ :: xs, h | .dict _ _ :: xs, h => by
    simp [itemsTypedB, leafTypedB] at h
  | .int _ :: xs, h | .bool _ :: xs, h | .f32 _ :: xs, h | .f64 _ :: xs, h | .str _ :: xs, h
  | .byt _ :: xs, h | .ts _ :: xs, h | .dur _ :: xs, h => by
    simp only [itemsTypedB, Bool.and_eq_true] at h
    rw [allDynOk, Bool.and_eq_true]
    exact ⟨by rw [msgDynOk]; all_goals (intros; contradiction), typed_items_dyn s S hS f xs h.2⟩

theorem typed_slots_dyn (s : Bool) (S : Schema) (hS : WfSchemaT S) :
    ∀ (fs : List FieldD) (sl : List Val), (∀ f ∈ fs, wfFieldB S.length f = true) → slotsTypedB s S fs sl = true →
      slotsDynOk S fs sl = true
  | [], [], _, _ => by rw [slotsDynOk]
  | f :: fs, v :: vs, hw, h => by
    rw [slotsTypedB] at h
    simp only [Bool.and_eq_true] at h
    rw [slotsDynOk, Bool.and_eq_true, Bool.and_eq_true]
    exact ⟨⟨dynOk_of_typed s S S.length f v (hw f (List.mem_cons_self ..)) h.1, typed_slot_dyn s S hS f v h.1⟩,
      typed_slots_dyn s S hS fs vs (fun g hg => hw g (List.mem_cons_of_mem _ hg)) h.2⟩
  | [], _ :: _, _, h => by simp [slotsTypedB] at h
  | _ :: _, [], _, h => by simp [slotsTypedB] at h
end

/-- **every typed message of a well-formed schema is inside the guard of the whole-method ties** -/
theorem msgDynOk_of_typed (s : Bool) (S : Schema) (hS : WfSchemaT S) (m : Val) (h : msgTypedB s S m = true) :
    msgDynOk S m = true := by
  cases m <;> simp [msgTypedB] at h
  rename_i c sl ow unk cur
  cases hd : S[c]? with
  | none => rw [hd] at h; simp at h
  | some d =>
    rw [hd] at h
    simp only [Bool.and_eq_true] at h
    have hfo : fieldsOf S c = d.fields := by simp [fieldsOf, hd]
    rw [msgDynOk, hfo]
    exact typed_slots_dyn s S hS d.fields sl (wfSchema_class S hS c d hd) h.2

/-! ### the domain `MsgOk` of the round-trip theorems -/

theorem scalarOk_dyn (S : Schema) (t : PType) (v : Val) (h : scalarOk t v = true) :
    msgDynOk S v = true ∧ isMsgVal v = false := by
  cases v <;> first | (simp [scalarOk] at h; done) | exact ⟨by rw [msgDynOk]; all_goals (intros; contradiction), rfl⟩

theorem timeValOk_dyn (S : Schema) (isDur : Bool) (v : Val) (h : timeValOkB isDur v = true) :
    msgDynOk S v = true ∧ isMsgVal v = false := by
  cases v <;> first | (simp [timeValOkB] at h; done) | exact ⟨by rw [msgDynOk]; all_goals (intros; contradiction), rfl⟩

/-- a list of values none of which is a Message instance -/
theorem plain_all (S : Schema) (p : Val → Bool) (hp : ∀ v, p v = true → msgDynOk S v = true ∧ isMsgVal v = false) :
    ∀ xs : List Val, xs.all p = true → allDynOk S xs = true ∧ ∀ x ∈ xs, isMsgVal x = false
  | [], _ => ⟨by rw [allDynOk], fun x hx => by simp at hx⟩
  | x :: xs, h => by
    simp only [List.all_cons, Bool.and_eq_true] at h
    obtain ⟨h1, h2⟩ := plain_all S p hp xs h.2
    refine ⟨by rw [allDynOk, Bool.and_eq_true]; exact ⟨(hp x h.1).1, h1⟩, fun y hy => ?_⟩
    rcases List.mem_cons.mp hy with hy | hy
    · subst hy; exact (hp y h.1).2
    · exact h2 y hy

theorem dynOk_list_plain (f : FieldD) (xs : List Val) (h : ∀ x ∈ xs, isMsgVal x = false) : dynOk f (.list xs) = true := by
  simp only [dynOk, List.all_eq_true]
  intro x hx; simp [h x hx]

theorem dynOk_list_place (f : FieldD) (xs : List Val) (h : msgPlace f = true) : dynOk f (.list xs) = true := by
  simp only [dynOk, List.all_eq_true]
  intro x hx; simp [h]

theorem dynOk_dict (f : FieldD) (ks vs : List Val) (hm : f.ty = .map) (hk : ∀ x ∈ ks, isMsgVal x = false)
    (hv : (∀ x ∈ vs, isMsgVal x = false) ∨ f.mapV = .message) : dynOk f (.dict ks vs) = true := by
  simp only [dynOk, List.all_eq_true]
  intro kv hkv
  have h1 := hk kv.1 (List.of_mem_zip hkv).1
  rcases hv with hv | hv
  · simp [hm, h1, hv kv.2 (List.of_mem_zip hkv).2]
  · simp [hm, h1, hv]

mutual
theorem ok_slot_dyn (S : Schema) (f : FieldD) : ∀ v : Val, slotOkB S f v = true → dynOk f v = true ∧ msgDynOk S v = true
  | .msg c sl ow unk cur, h => by
    rw [slotOkB] at h
    simp only [Bool.and_eq_true] at h
    obtain ⟨⟨hsub, _⟩, hrest⟩ := h
    have hp : msgPlace f = true := by
      simp only [subFieldB, Bool.and_eq_true] at hsub
      simp [msgPlace, hsub.1.1.1.1, hsub.1.1.1.2]
    refine ⟨hp, ?_⟩
    cases hd : S[c]? with
    | none => rw [hd] at hrest; simp at hrest
    | some d =>
      rw [hd] at hrest
      simp only [Bool.and_eq_true] at hrest
      have hfo : fieldsOf S c = d.fields := by simp [fieldsOf, hd]
      rw [msgDynOk, hfo]
      exact ok_slots_dyn S d.fields sl hrest.2
  | .list xs, h => by
    rw [slotOkB] at h
    simp only [Bool.or_eq_true, Bool.and_eq_true] at h
    rw [msgDynOk]
    rcases h with (((h | h) | h) | h) | h
    · obtain ⟨h1, h2⟩ := plain_all S _ (scalarOk_dyn S f.ty) xs h.2
      exact ⟨dynOk_list_plain f xs h2, h1⟩
    · cases hk : f.kind with
      | user c =>
        rw [hk] at h
        simp only [Bool.and_eq_true] at h
        have hsub := h.1.1
        simp only [subFieldB, Bool.and_eq_true] at hsub
        exact ⟨dynOk_list_place f xs (by simp [msgPlace, hsub.1.1.1.1, hsub.1.1.1.2]), ok_msgs_dyn S c xs h.2⟩
      | _ => rw [hk] at h; simp at h
    · obtain ⟨h1, h2⟩ := plain_all S _ (timeValOk_dyn S false) xs h.2
      exact ⟨dynOk_list_plain f xs h2, h1⟩
    · obtain ⟨h1, h2⟩ := plain_all S _ (timeValOk_dyn S true) xs h.2
      exact ⟨dynOk_list_plain f xs h2, h1⟩
    · cases hw : f.wraps with
      | none => rw [hw] at h; simp at h
      | some w =>
        rw [hw] at h
        simp only [Bool.and_eq_true] at h
        obtain ⟨h1, h2⟩ := plain_all S _ (scalarOk_dyn S w) xs h.2
        exact ⟨dynOk_list_plain f xs h2, h1⟩
  | .dict ks vs, h => by
    rw [slotOkB] at h
    simp only [Bool.or_eq_true, Bool.and_eq_true] at h
    rw [msgDynOk, Bool.and_eq_true]
    rcases h with ((h | h) | h) | h
    · obtain ⟨⟨⟨⟨hf, _⟩, hks⟩, hvs⟩, _⟩ := h
      have hm : f.ty = .map := by simp only [mapFieldSB, Bool.and_eq_true] at hf; simpa using hf.1.1.1.1.1.1.1
      obtain ⟨k1, k2⟩ := plain_all S _ (scalarOk_dyn S f.mapK) ks hks
      obtain ⟨v1, v2⟩ := plain_all S _ (scalarOk_dyn S f.mapV) vs hvs
      exact ⟨dynOk_dict f ks vs hm k2 (Or.inl v2), k1, v1⟩
    · cases hk : f.mapVKind with
      | user c =>
        rw [hk] at h
        simp only [Bool.and_eq_true] at h
        obtain ⟨⟨⟨⟨hf, _⟩, hks⟩, hvs⟩, _⟩ := h
        simp only [mapFieldMB, Bool.and_eq_true] at hf
        have hm : f.ty = .map := by simpa using hf.1.1.1.1.1.1.1.1
        have hmv : f.mapV = .message := by simpa using hf.1.1.1.1.1.1.2
        obtain ⟨k1, k2⟩ := plain_all S _ (scalarOk_dyn S f.mapK) ks hks
        exact ⟨dynOk_dict f ks vs hm k2 (Or.inr hmv), k1, ok_msgs_dyn S c vs hvs⟩
      | _ => rw [hk] at h; simp at h
    · obtain ⟨⟨⟨⟨hf, _⟩, hks⟩, hvs⟩, _⟩ := h
      simp only [mapFieldTB, Bool.and_eq_true] at hf
      have hm : f.ty = .map := by simpa using hf.1.1.1.1.1.1.1.1
      obtain ⟨k1, k2⟩ := plain_all S _ (scalarOk_dyn S f.mapK) ks hks
      obtain ⟨v1, v2⟩ := plain_all S _ (timeValOk_dyn S false) vs hvs
      exact ⟨dynOk_dict f ks vs hm k2 (Or.inl v2), k1, v1⟩
    · obtain ⟨⟨⟨⟨hf, _⟩, hks⟩, hvs⟩, _⟩ := h
      simp only [mapFieldTB, Bool.and_eq_true] at hf
      have hm : f.ty = .map := by simpa using hf.1.1.1.1.1.1.1.1
      obtain ⟨k1, k2⟩ := plain_all S _ (scalarOk_dyn S f.mapK) ks hks
      obtain ⟨v1, v2⟩ := plain_all S _ (timeValOk_dyn S true) vs hvs
      exact ⟨dynOk_dict f ks vs hm k2 (Or.inl v2), k1, v1⟩
  | .ph, _ | .none, _ | .int _, _ | .bool _, _ | .f32 _, _ | .f64 _, _ | .str _, _ | .byt _, _ | .ts _, _ | .dur _, _ => by
    refine ⟨rfl, ?_⟩
    rw [msgDynOk]; all_goals (intros; contradiction)

theorem ok_slots_dyn (S : Schema) : ∀ (fs : List FieldD) (sl : List Val), slotsOkB S fs sl = true → slotsDynOk S fs sl = true
  | [], [], _ => by rw [slotsDynOk]
  | f :: fs, v :: vs, h => by
    rw [slotsOkB] at h
    simp only [Bool.and_eq_true] at h
    rw [slotsDynOk, Bool.and_eq_true, Bool.and_eq_true]
    exact ⟨ok_slot_dyn S f v h.1, ok_slots_dyn S fs vs h.2⟩
  | [], _ :: _, h => by simp [slotsOkB] at h
  | _ :: _, [], h => by simp [slotsOkB] at h

theorem ok_msgs_dyn (S : Schema) (c : Nat) : ∀ xs : List Val, msgsOkB S c xs = true → allDynOk S xs = true
  | [], _ => by rw [allDynOk]
  | .msg c' sl ow unk cur :: xs, h => by
    rw [msgsOkB] at h
    simp only [Bool.and_eq_true] at h
    rw [allDynOk, Bool.and_eq_true]
    refine ⟨?_, ok_msgs_dyn S c xs h.2⟩
    cases hd : S[c']? with
    | none => rw [hd] at h; simp at h
    | some d =>
      rw [hd] at h
      simp only [Bool.and_eq_true] at h
      have hfo : fieldsOf S c' = d.fields := by simp [fieldsOf, hd]
      rw [msgDynOk, hfo]
      exact ok_slots_dyn S d.fields sl h.1.2.2
  | .ph :: xs, h | .none :: xs, h | .list _ :: xs, h | .dict _ _ :: xs, h | .int _ :: xs, h | .bool _ :: xs, h
  | .f32 _ :: xs, h | .f64 _ :: xs, h | .str _ :: xs, h | .byt _ :: xs, h | .ts _ :: xs, h | .dur _ :: xs, h => by
    simp [msgsOkB] at h
end

/-- **every message in the domain `MsgOk` of the round-trip theorems is inside the guard of the
    whole-method ties** -/
theorem msgDynOk_of_ok (S : Schema) (m : Val) (h : MsgOk S m) : msgDynOk S m = true := by
  have hb := (msgOkB_iff S m).mpr h
  cases m <;> simp [msgOkB] at hb
  rename_i c sl ow unk cur
  cases hd : S[c]? with
  | none => rw [hd] at hb; simp at hb
  | some d =>
    rw [hd] at hb
    simp only [Bool.and_eq_true] at hb
    have hfo : fieldsOf S c = d.fields := by simp [fieldsOf, hd]
    rw [msgDynOk, hfo]
    exact ok_slots_dyn S d.fields sl hb.2


end Bp.SrcTieMsg
