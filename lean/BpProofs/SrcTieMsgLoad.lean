import BpProofs.SrcTieMsg
/-
  THE TIE BETWEEN THE TRANSLATED WHOLE METHODS AND THE HAND-WRITTEN MODEL, decoder side.

  `Bp.Src.msg_load`, `msg_parse`, `msg_setstate`, `class_from_string` (BpProofs/Gen/SrcMsg.lean) are
  regenerated from the Python AST of `Message.load`, `parse`, `__setstate__`, `FromString` on every
  run; the record loop of `load` calls the translated loop body `Src.load_record` (Gen/SrcLoad.lean)
  on the records the translated `load_fields` (Gen/SrcCodec.lean) yields.  `Src.class_parse fuel S
  depth` ties the recursive knot: `<Cls>().parse(<bytes>)` inside `_postprocess_single` is the
  translated `parse` itself, one nesting level down.  The theorems below say, for every schema,
  every class, every receiver state and every input made of bytes,

      Msg.toR (Src.class_parse fuel S depth d st bs) = loadInto S depth d st bs     (EVERY depth)
      Src.value_parse fuel S bs.length m bs           = Py.ofR (parseInto S m bs)
      Src.value_from_string fuel S bs.length c bs     = Py.ofR (parse S c bs)
      Src.value_load fuel S depth m bs SIZE_DELIMITED = Py.ofR (loadDelimited S m bs)   (depth = size of the frame)

  Guards: `WfBytes bs` (the input consists of bytes) and `bs.length + 12 ≤ fuel` (the `while` loops of
  `load_varint` / `load_fields` / the packed decoder get enough fuel).  No typing guard: the receiver
  state is arbitrary.

  How the knot is tied: the model's own `loadInto` is fuel-recursive on the nesting depth and reports
  an exhausted budget as AssertionError, which is what `Msg.toR` maps `.diverge` to; so the two
  agree at EVERY depth, by induction on the depth, using `load_fields_eq` (framing), `loadLoop_eq`
  (the record loop, from `load_record_eq`), `src_records_ok` (every record of an input made of bytes
  is inside the guard of `load_record_eq`) and the fact that `applyField` hands `rec` only the
  payload of the record (`applyField_congr`).
-/
set_option linter.unusedSimpArgs false
set_option linter.unusedVariables false
namespace Bp.SrcTieMsg
open Bp Bp.Py Gen Bp.SrcTieDump Bp.SrcTieLoad

/-! ### the model's record step calls `rec` on the payload of the record only -/

theorem applyField_congr (S : Schema) (rec rec' : Loader) (d : MsgD) (st : MState) (pf : PField)
    (h : ∀ d' st', rec d' st' pf.payload = rec' d' st' pf.payload) :
    applyField S rec d st pf = applyField S rec' d st pf := by
  unfold applyField decodeValue postLen
  simp only [h]

theorem foldFields_congr (S : Schema) (rec rec' : Loader) (d : MsgD) : ∀ (pfs : List PField) (st : MState),
    (∀ pf ∈ pfs, ∀ d' st', rec d' st' pf.payload = rec' d' st' pf.payload) →
    foldFields S rec d st pfs = foldFields S rec' d st pfs
  | [], st, _ => rfl
  | pf :: pfs, st, h => by
    simp only [foldFields, applyField_congr S rec rec' d st pf (h pf (List.mem_cons_self ..))]
    cases applyField S rec' d st pf with
    | error e => rfl
    | ok st' => exact foldFields_congr S rec rec' d pfs st' (fun q hq => h q (List.mem_cons_of_mem _ hq))

/-! ### the record loop -/

theorem load_loop_eq (fuel : Nat) (S : Schema) (rec : Loader) (d : MsgD) : ∀ (pfs : List PField) (st : MState),
    Src.msg_load.loop1 fuel S rec d pfs st = loadLoop fuel S rec d st pfs
  | [], st => by rw [Src.msg_load.loop1, loadLoop]
  | pf :: pfs, st => by
    rw [Src.msg_load.loop1, loadLoop]
    simp only [load_loop_eq fuel S rec d pfs]

/-- what `load` does once the stream to read to its end is fixed: `_serialized_on_wire = True`, the
    framing, the record loop -/
def loadBody (S : Schema) (rec : Loader) (d : MsgD) (st : MState) (bs : Bytes) : R MState :=
  (loadFields bs).bind fun pfs => foldFields S rec d { st with onWire := true } pfs

theorem recOk_mono (pf : PField) (n fuel : Nat) (h : RecOk n pf) (hn : n ≤ fuel) : RecOk fuel pf :=
  ⟨h.1, by have := h.2; omega⟩

/-- the tail of `Message.load` as written (everything from `self._serialized_on_wire = True` on);
    `g` = what is handed back as the caller's stream, given the unread rest of the stream that was parsed -/
theorem load_tail_eq (fuel : Nat) (S : Schema) (rec : Loader) (d : MsgD) (st : MState) (bs : Bytes) (g : Bytes → Bytes)
    (hw : WfBytes bs) (hf : bs.length + 12 ≤ fuel) :
    ((Src.load_fields fuel bs).bind fun (records, stream) =>
      (Src.msg_load.loop1 fuel S rec d records (Msg.setSerializedOnWire st true)).bind fun self =>
        (.ok (self, g stream) : Res (MState × Bytes)))
      = (ofR (loadBody S rec d st bs)).bind fun st' => .ok (st', g []) := by
  rw [SrcTie.load_fields_eq bs hw fuel (by omega)]
  unfold loadBody
  cases hl : loadFields bs with
  | error e => rfl
  | ok pfs =>
    have hall : ∀ pf ∈ pfs, RecOk fuel pf := fun pf hpf =>
      recOk_mono pf _ fuel (loadFields_payload_wf bs hw pfs hl pf hpf).1 hf
    simp only [res_bind_ok, Bp.bind_ok, load_loop_eq, loadLoop_eq S rec d fuel pfs hall, Msg.setSerializedOnWire]

/-- **`self.load(stream)` as written** (no size): reads the stream to its end -/
theorem msg_load_eq (fuel : Nat) (S : Schema) (rec : Loader) (d : MsgD) (st : MState) (bs : Bytes)
    (hw : WfBytes bs) (hf : bs.length + 12 ≤ fuel) :
    Src.msg_load fuel S rec d st bs Option.none = (ofR (loadBody S rec d st bs)).bind fun st' => .ok (st', []) := by
  unfold Src.msg_load
  have h0 : ((Option.none : Option Int) == some (-1 : Int)) = false := rfl
  simp only [h0, Bool.false_eq_true, if_false]
  exact load_tail_eq fuel S rec d st bs (fun s => s) hw hf

/-- **`self.parse(data)` as written** -/
theorem msg_parse_eq (fuel : Nat) (S : Schema) (rec : Loader) (d : MsgD) (st : MState) (bs : Bytes)
    (hw : WfBytes bs) (hf : bs.length + 12 ≤ fuel) :
    Src.msg_parse fuel S rec d st bs = ofR (loadBody S rec d st bs) := by
  unfold Src.msg_parse
  simp only [msg_load_eq fuel S rec d st bs hw hf]
  cases loadBody S rec d st bs <;> rfl

theorem loadInto_succ' (S : Schema) (k : Nat) (d : MsgD) (st : MState) (bs : Bytes) :
    loadInto S (k + 1) d st bs = loadBody S (loadInto S k) d st bs := by
  rw [loadInto]; rfl

/-! ### the knot -/

/-- `<Cls>().parse(bytes)` as `_postprocess_single` sees it with `depth` nesting levels left -/
def recAt (fuel : Nat) (S : Schema) (depth : Nat) : Loader :=
  fun d' self' data' => Msg.toR (Src.class_parse fuel S depth d' self' data')

/-- **`parse` as written, with the recursive knot tied, is the model's `loadInto` at every nesting
    budget** (the model reports an exhausted budget as AssertionError; so does `Msg.toR`) -/
theorem class_parse_eq (fuel : Nat) (S : Schema) : ∀ (depth : Nat) (d : MsgD) (st : MState) (bs : Bytes),
    WfBytes bs → bs.length + 12 ≤ fuel → Msg.toR (Src.class_parse fuel S depth d st bs) = loadInto S depth d st bs
  | 0, d, st, bs, _, _ => by rw [Src.class_parse, loadInto]; rfl
  | k + 1, d, st, bs, hw, hf => by
    rw [Src.class_parse, loadInto_succ']
    rw [show (fun d' self' data' => Msg.toR (Src.class_parse fuel S k d' self' data')) = recAt fuel S k from rfl,
      msg_parse_eq fuel S _ d st bs hw hf, toR_ofR]
    unfold loadBody
    cases hl : loadFields bs with
    | error e => rfl
    | ok pfs =>
      simp only [Bp.bind_ok]
      apply foldFields_congr
      intro pf hpf d' st'
      obtain ⟨⟨h1, h2⟩, _⟩ := loadFields_payload_wf bs hw pfs hl pf hpf
      exact class_parse_eq fuel S k d' st' pf.payload h1 (by omega)

theorem recAt_eq (fuel : Nat) (S : Schema) (depth : Nat) (d : MsgD) (st : MState) (bs : Bytes) (rec : Loader)
    (hw : WfBytes bs) (hf : bs.length + 12 ≤ fuel) :
    loadBody S (recAt fuel S depth) d st bs = loadInto S (depth + 1) d st bs := by
  rw [loadInto_succ']
  unfold loadBody
  cases hl : loadFields bs with
  | error e => rfl
  | ok pfs =>
    simp only [Bp.bind_ok]
    apply foldFields_congr
    intro pf hpf d' st'
    obtain ⟨⟨h1, h2⟩, _⟩ := loadFields_payload_wf bs hw pfs hl pf hpf
    exact class_parse_eq fuel S depth d' st' pf.payload h1 (by omega)

/-- `m.parse(data)` of the model with an explicit nesting budget (`parseInto` uses `data.length + 1`) -/
def parseIntoAt (S : Schema) (n : Nat) (m : Val) (bs : Bytes) : R Val :=
  match m with
  | .msg c slots ow unk cur =>
    match S[c]? with
    | Option.none => .error .key
    | some d => (loadInto S n d { slots := slots, onWire := ow, unknown := unk, cur := cur } bs).bind fun st => .ok (st.toVal c)
  | _ => .error .type

theorem parseIntoAt_length (S : Schema) (m : Val) (bs : Bytes) : parseIntoAt S (bs.length + 1) m bs = parseInto S m bs := by
  cases m <;> rfl

theorem value_parse_at (fuel : Nat) (S : Schema) (depth : Nat) (m : Val) (bs : Bytes)
    (hw : WfBytes bs) (hf : bs.length + 12 ≤ fuel) :
    Src.value_parse fuel S depth m bs = ofR (parseIntoAt S (depth + 1) m bs) := by
  unfold Src.value_parse Msg.onInstance parseIntoAt
  cases m with
  | msg c sl ow unk cur =>
    simp only []
    cases hc : S[c]? with
    | none => rfl
    | some d =>
      simp only []
      rw [show (fun d' self' data' => Msg.toR (Src.class_parse fuel S depth d' self' data')) = recAt fuel S depth from rfl,
        msg_parse_eq fuel S _ d _ bs hw hf, recAt_eq fuel S depth d _ bs (recAt fuel S depth) hw hf]
      cases loadInto S (depth + 1) d _ bs <;> rfl
  | _ => rfl

/-- **`m.parse(data)` as written is the model's `parseInto`** -/
theorem value_parse_eq (fuel : Nat) (S : Schema) (m : Val) (bs : Bytes) (hw : WfBytes bs) (hf : bs.length + 12 ≤ fuel) :
    Src.value_parse fuel S bs.length m bs = ofR (parseInto S m bs) := by
  rw [value_parse_at fuel S bs.length m bs hw hf, parseIntoAt_length]

/-- `m.__setstate__(data)` as written is `m.parse(data)` -/
theorem value_setstate_eq (fuel : Nat) (S : Schema) (depth : Nat) (m : Val) (bs : Bytes) :
    Src.value_setstate fuel S depth m bs = Src.value_parse fuel S depth m bs := by
  unfold Src.value_setstate Src.value_parse Src.msg_setstate
  congr 1
  funext d self
  cases Src.msg_parse fuel S _ d self bs <;> rfl

/-- `Cls.FromString(data)` as written is `Cls().parse(data)` -/
theorem value_from_string_parse (fuel : Nat) (S : Schema) (depth c : Nat) (bs : Bytes) :
    Src.value_from_string fuel S depth c bs = Src.value_parse fuel S depth (fresh S c) bs := by
  unfold Src.value_from_string Src.value_parse fresh Msg.onInstance Src.class_from_string
  simp only []
  cases hc : S[c]? with
  | none => rfl
  | some d =>
    have hfo : fieldsOf S c = d.fields := by simp [fieldsOf, hc]
    have hgo : groupsOf S c = d.nGroups := by simp [groupsOf, hc]
    simp only [hfo, hgo]
    simp only [Msg.newInstance, freshState]
    cases Src.msg_parse fuel S _ d _ bs <;> rfl

/-- **`Cls.FromString(data)` as written is the model's `parse`** -/
theorem value_from_string_eq (fuel : Nat) (S : Schema) (c : Nat) (bs : Bytes) (hw : WfBytes bs) (hf : bs.length + 12 ≤ fuel) :
    Src.value_from_string fuel S bs.length c bs = ofR (parse S c bs) := by
  rw [value_from_string_parse, value_parse_eq fuel S _ bs hw hf]; rfl

/-! ### `load(stream, SIZE_DELIMITED)` -/

/-- **`self.load(stream, SIZE_DELIMITED)` as written**: the varint, exactly that many bytes, the
    length check, then the records of those bytes; the caller's stream is left after the frame -/
theorem msg_load_delimited_eq (fuel : Nat) (S : Schema) (rec : Loader) (d : MsgD) (st : MState) (bs : Bytes)
    (hw : WfBytes bs) (hf : bs.length + 12 ≤ fuel) :
    Src.msg_load fuel S rec d st bs (some (-1)) =
      match loadVarint bs with
      | .error e => .raise e
      | .ok (size, k) =>
        if (bs.drop k).length < size then .raise .value
        else (ofR (loadBody S rec d st ((bs.drop k).take size))).bind fun st' => .ok (st', (bs.drop k).drop size) := by
  unfold Src.msg_load
  have h1 : ((some (-1 : Int)) == some (-1 : Int)) = true := rfl
  simp only [h1, if_true]
  rw [SrcTie.load_varint_eq bs hw fuel (by omega)]
  cases hv : loadVarint bs with
  | error e => rfl
  | ok p =>
    obtain ⟨size, k⟩ := p
    have hw' : WfBytes ((bs.drop k).take size) := fun b hb => hw b (List.mem_of_mem_drop (List.mem_of_mem_take hb))
    have hf' : ((bs.drop k).take size).length + 12 ≤ fuel := by
      simp only [List.length_take, List.length_drop]; omega
    have htail := load_tail_eq fuel S rec d st _ (fun _ => (bs.drop k).drop size) hw' hf'
    have ht : Py.take (bs.drop k) (size : Int) = (bs.drop k).take size := by simp [Py.take]
    have hd : Py.drop (bs.drop k) (size : Int) = (bs.drop k).drop size := by simp [Py.drop]
    simp only [res_bind_ok, ht, hd]
    by_cases hlt : (bs.drop k).length < size
    · have hne : Py.len ((bs.drop k).take size) ≠ (size : Int) := by
        simp only [Py.len, List.length_take]; omega
      simp only [hne, ne_eq, not_false_eq_true, decide_true, if_true, hlt]
    · have heq : Py.len ((bs.drop k).take size) = (size : Int) := by
        simp only [Py.len, List.length_take]; omega
      simp only [heq, ne_eq, not_true_eq_false, decide_false, Bool.false_eq_true, if_false, if_true, hlt]
      exact htail

/-- the model's `loadDelimited` with an explicit nesting budget for the body -/
def loadDelimitedAt (S : Schema) (n : Nat) (m : Val) (bs : Bytes) : R (Val × Bytes) :=
  match loadVarint bs with
  | .error e => .error e
  | .ok (size, k) =>
    let rest := bs.drop k
    if rest.length < size then .error .value
    else (parseIntoAt S n m (rest.take size)).bind fun v => .ok (v, rest.drop size)

/-- `loadDelimited` uses the budget `size + 1` for a frame that is completely there -/
theorem loadDelimitedAt_frame (S : Schema) (m : Val) (bs : Bytes) (size k : Nat) (hv : loadVarint bs = .ok (size, k))
    (hlen : size ≤ (bs.drop k).length) : loadDelimitedAt S (size + 1) m bs = loadDelimited S m bs := by
  unfold loadDelimitedAt loadDelimited
  rw [hv]
  have : ¬ (bs.drop k).length < size := by omega
  simp only [this, if_false]
  have hl : ((bs.drop k).take size).length = size := by rw [List.length_take]; omega
  rw [← parseIntoAt_length, hl]

theorem loadDelimitedAt_short (S : Schema) (m : Val) (bs : Bytes) (n : Nat)
    (h : ∀ size k, loadVarint bs = .ok (size, k) → (bs.drop k).length < size) :
    loadDelimitedAt S n m bs = loadDelimited S m bs := by
  unfold loadDelimitedAt loadDelimited
  cases hv : loadVarint bs with
  | error e => rfl
  | ok p => obtain ⟨size, k⟩ := p; simp only [h size k hv, if_true]

/-- **`m.load(stream, SIZE_DELIMITED)` as written** for an instance `m` of a class of the schema -/
theorem value_load_delimited_at (fuel : Nat) (S : Schema) (depth c : Nat) (d : MsgD) (hc : S[c]? = some d)
    (sl : List Val) (ow : Bool) (unk : Bytes) (cur : List (Option Nat)) (bs : Bytes)
    (hw : WfBytes bs) (hf : bs.length + 12 ≤ fuel) :
    Src.value_load fuel S depth (.msg c sl ow unk cur) bs (some (-1))
      = ofR (loadDelimitedAt S (depth + 1) (.msg c sl ow unk cur) bs) := by
  unfold Src.value_load Msg.onInstanceS loadDelimitedAt parseIntoAt
  simp only [hc]
  rw [show (fun d' self' data' => Msg.toR (Src.class_parse fuel S depth d' self' data')) = recAt fuel S depth from rfl,
    msg_load_delimited_eq fuel S _ d _ bs hw hf]
  cases hv : loadVarint bs with
  | error e => rfl
  | ok p =>
    obtain ⟨size, k⟩ := p
    simp only []
    by_cases hlt : (bs.drop k).length < size
    · simp only [hlt, if_true]; rfl
    · simp only [hlt, if_false]
      have hw' : WfBytes ((bs.drop k).take size) := fun b hb => hw b (List.mem_of_mem_drop (List.mem_of_mem_take hb))
      have hf' : ((bs.drop k).take size).length + 12 ≤ fuel := by
        simp only [List.length_take, List.length_drop]; omega
      rw [recAt_eq fuel S depth d _ _ (recAt fuel S depth) hw' hf']
      cases loadInto S (depth + 1) d _ ((bs.drop k).take size) <;> rfl

end Bp.SrcTieMsg
