import BpProofs.Gen.SrcNaming
import BpProofs.SrcTieCasing
/-
  The translation of src/betterproto/compile/naming.py (BpProofs/Gen/SrcNaming.lean) equals the model of
  BpModel/Naming.lean, for all strings: `x.find(sub)` followed by the slice `x[find + len(sub):]` is the model's
  `afterFirst`, `x.strip("_")` is the model's `stripU`, `.upper()` is `upperW` by definition of the prelude, and the
  `casing.X` calls are the model's by BpProofs/SrcTieCasing.lean.
-/
namespace Bp.SrcTieNaming
open Bp Bp.Casing Bp.Naming Bp.Py Bp.SrcTieCasing
open Bp.Importing (Str)

/-- `find` and the model's `afterFirst`: no occurrence ↔ `-1`; otherwise the index `k` found is such that the
    model's rest is `hay[k + len(sub):]`, and that slice is inside `hay` -/
theorem strFindFrom_spec (sub : Str) : ∀ (hay : Str) (i : Nat),
    match afterFirst sub hay with
    | none => strFindFrom sub i hay = -1
    | some r => ∃ k : Nat, strFindFrom sub i hay = ((i + k : Nat) : Int) ∧ k + sub.length ≤ hay.length
        ∧ r = hay.drop (k + sub.length) := by
  intro hay
  induction hay with
  | nil =>
    intro i
    cases sub with
    | nil => exact ⟨0, by simp [strFindFrom], by simp, by simp⟩
    | cons a t => simp [afterFirst, strFindFrom]
  | cons c t ih =>
    intro i
    by_cases hp : sub.isPrefixOf (c :: t) = true
    · simp only [afterFirst, strFindFrom, hp, if_true]
      have hle : sub.length ≤ (c :: t).length := (List.isPrefixOf_iff_prefix.mp hp).length_le
      exact ⟨0, by simp, by simpa using hle, by simp⟩
    · simp only [afterFirst, strFindFrom, hp]
      have h := ih (i + 1)
      cases hr : afterFirst sub t with
      | none => rw [hr] at h; simpa using h
      | some r =>
        rw [hr] at h
        obtain ⟨k, h1, h2, h3⟩ := h
        refine ⟨k + 1, ?_, ?_, ?_⟩
        · simp only [Bool.false_eq_true, if_false]; rw [h1]; congr 1; omega
        · simp only [List.length_cons]; omega
        · rw [h3, show k + 1 + sub.length = (k + sub.length) + 1 by omega, List.drop_succ_cons]

theorem clamp_nat (n m : Nat) : clamp n (m : Int) = min m n := by
  have : ¬ ((m : Int) < 0) := by omega
  simp [clamp, this]

/-- `x.strip("_")` is the model's `stripU` -/
theorem strStrip_underscore (x : Str) : strStrip x "_".toList = stripU x := by
  have hf : (fun c : Char => ("_".toList).contains c) = fun c => decide (c = '_') := by
    funext c
    show (['_'] : List Char).contains c = decide (c = '_')
    simp
  simp only [strStrip, stripU, rstripU, lstripU, hf]

/-- `name[name.find(e) + len(e):]` when `find` is not `-1`, the unchanged name otherwise: the model's `afterFirst` -/
theorem find_slice (name e : Str) :
    (match afterFirst e name with
     | none => strFind name e = -1
     | some r => strFind name e ≠ -1 ∧ sliceFrom name (strFind name e + llen e) = r) := by
  have h := strFindFrom_spec e name 0
  cases hr : afterFirst e name with
  | none => rw [hr] at h; exact h
  | some r =>
    rw [hr] at h
    obtain ⟨k, h1, h2, h3⟩ := h
    simp only [Nat.zero_add] at h1
    refine ⟨?_, ?_⟩
    · show strFindFrom e 0 name ≠ -1
      rw [h1]; omega
    · show sliceFrom name (strFindFrom e 0 name + llen e) = r
      rw [h1, h3, show (k : Int) + llen e = ((k + e.length : Nat) : Int) by simp [llen], sliceFrom, clamp_nat]
      congr 1
      omega

theorem pythonize_class_name_eq (s : Str) : Src.pythonize_class_name s = pythonizeClassName s :=
  pascal_case_eq s

theorem pythonize_field_name_eq (s : Str) : Src.pythonize_field_name s = pythonizeFieldName s :=
  safe_snake_case_eq s

theorem pythonize_method_name_eq (s : Str) : Src.pythonize_method_name s = pythonizeMethodName s :=
  safe_snake_case_eq s

theorem pythonize_enum_member_name_eq (name enumName : Str) :
    Src.pythonize_enum_member_name name enumName = pythonizeEnumMemberName name enumName := by
  have h := find_slice name (upperW (snake enumName))
  simp only [Src.pythonize_enum_member_name, pythonizeEnumMemberName, snake_case_eq, strUpper, sanitize_name_eq]
  cases hr : afterFirst (upperW (snake enumName)) name with
  | none =>
    rw [hr] at h
    simp [h]
  | some r =>
    rw [hr] at h
    have hne : (strFind name (upperW (snake enumName)) != -1) = true := by simpa using h.1
    simp only [hne, if_true, h.2, strStrip_underscore]

end Bp.SrcTieNaming
