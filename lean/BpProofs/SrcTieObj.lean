import BpProofs.Gen.SrcObj
import BpProofs.Ops
/-
  THE TIE BETWEEN THE TRANSLATED OBJECT METHODS AND THE HAND-WRITTEN MODEL, first group:
  `Message.__setattr__`, `Message.__getattribute__`, `which_one_of`,
  `Message._include_default_value_for_oneof` (BpProofs/Gen/SrcObj.lean, regenerated from the
  Python AST on every run) against `setAttr`, `getAttr`, `selectedInGroup` of
  BpModel/Load.lean / Ops.lean / Value.lean.

  Guards (all decidable):
    * `idx < fs.length`: the name is a field of the class (for any other name the source goes
      through `object.__setattr__` / `object.__getattribute__` with that name, which the
      name-as-index representation cannot express; the model leaves the state alone);
    * `st.slots.length = fs.length` (`__setattr__` only): one raw slot per field — `FullVal` of
      Props/C07.lean, kept by every operation (`C07.full_step`);
    * `g < st.cur.length` for the group of the field: `_group_current` has an entry for every
      group of the class (first conjunct of the oneof invariant `Inv` + `WfGroups`).
-/
set_option linter.unusedSimpArgs false
set_option linter.unusedVariables false
namespace Bp.SrcTieObj
open Bp Bp.Py

@[simp] theorem res_bind_ok {α β} (a : α) (f : α → Res β) : (Res.ok a).bind f = f a := rfl
@[simp] theorem res_bind_raise {α β} (e : PyErr) (f : α → Res β) : (Res.raise e : Res α).bind f = .raise e := rfl
@[simp] theorem ofR_ok {α} (a : α) : ofR (Except.ok a : R α) = .ok a := rfl
@[simp] theorem ofR_error {α} (e : PyErr) : ofR (Except.error e : R α) = .raise e := rfl

/-! ### `__setattr__` -/

/-- one iteration of the loop over the members of the group -/
def stepM (attr g : Nat) (st : MState) (m : Nat × FieldD) : MState :=
  if m.1 == attr then groupCurrentSet st g m.1 else rawSet st m.1 .ph

theorem setattr_loop (S : Schema) (fs : List FieldD) (attr g : Nat) :
    ∀ (ms : List (Nat × FieldD)) (st : MState), Src.setattr.loop1 S fs attr g ms st = .ok (ms.foldl (stepM attr g) st)
  | [], st => rfl
  | m :: ms, st => by
    rw [Src.setattr.loop1]
    by_cases h : (fieldName m == attr) = true
    · simp only [h, if_true, res_bind_ok]
      rw [setattr_loop S fs attr g ms]
      simp [List.foldl_cons, stepM, fieldName] at h ⊢
      simp [h]
    · have h' : (fieldName m == attr) = false := by simpa using h
      simp only [h', Bool.false_eq_true, if_false, res_bind_ok]
      rw [setattr_loop S fs attr g ms]
      simp [List.foldl_cons, stepM, fieldName] at h' ⊢
      simp [h']

/-- **the loop of `__setattr__` does not depend on the iteration order of the set
    `oneof_field_by_group[group]`**: any two orders of the same members give the same state -/
theorem setattr_loop_perm (S : Schema) (fs : List FieldD) (attr g : Nat) (ms ms' : List (Nat × FieldD))
    (hp : ms.Perm ms') (st : MState) :
    Src.setattr.loop1 S fs attr g ms st = Src.setattr.loop1 S fs attr g ms' st := by
  rw [setattr_loop, setattr_loop]
  congr 1
  apply List.Perm.foldl_eq' hp
  intro x _ y _ z
  unfold stepM groupCurrentSet rawSet setAt
  by_cases hx : (x.1 == attr) = true <;> by_cases hy : (y.1 == attr) = true
  · have ex : x.1 = attr := by simpa using hx
    have ey : y.1 = attr := by simpa using hy
    simp [ex, ey]
  · simp [hx, hy]
  · simp [hx, hy]
  · have hx' : (x.1 == attr) = false := by simpa using hx
    have hy' : (y.1 == attr) = false := by simpa using hy
    simp only [hx', hy', Bool.false_eq_true, if_false]
    by_cases e : x.1 = y.1
    · rw [e]
    · congr 1
      exact List.set_comm _ _ e

theorem any_members (g : Nat) : ∀ (fs : List FieldD) (j k : Nat) (f : FieldD), fs[k]? = some f → f.group = some g →
    (membersFrom g fs j).any (fun m => m.1 == j + k) = true
  | [], _, _, _, h, _ => by simp at h
  | f0 :: fs, j, 0, f, h, hg => by
    simp at h; subst h
    simp [membersFrom, hg]
  | f0 :: fs, j, k + 1, f, h, hg => by
    simp at h
    have ih := any_members g fs (j + 1) k f h hg
    have e : j + 1 + k = j + (k + 1) := by omega
    rw [e] at ih
    rw [membersFrom]
    split
    · simp only [List.any_cons, ih, Bool.or_true]
    · exact ih

theorem set_idem (cur : List (Option Nat)) (g : Nat) (x : Option Nat) : (cur.set g x).set g x = cur.set g x := by
  simp [List.set_set]

/-- the loop over the members in declaration order is the model's `resetGroup` on the slots
    and (when the assigned name is among the members) the selection of the group -/
theorem foldl_members (g idx : Nat) : ∀ (fs : List FieldD) (j : Nat) (pre ss : List Val) (st : MState),
    st.slots = pre ++ ss → pre.length = j → ss.length = fs.length →
    (membersFrom g fs j).foldl (stepM idx g) st =
      { st with slots := pre ++ resetGroup g idx fs ss j,
                cur := if (membersFrom g fs j).any (fun m => m.1 == idx) then st.cur.set g (some idx) else st.cur }
  | [], j, pre, ss, st, hs, _, _ => by
    cases st
    simp only [membersFrom, List.foldl_nil, List.any_nil, Bool.false_eq_true, if_false, resetGroup] at hs ⊢
    rw [hs]
  | f :: fs, j, pre, [], st, _, _, hl => by simp at hl
  | f :: fs, j, pre, s :: ss, st, hs, hp, hl => by
    have hl' : ss.length = fs.length := by simpa using hl
    rw [membersFrom, resetGroup]
    by_cases hm : (f.group == some g) = true
    · simp only [hm, if_true, List.foldl_cons, Bool.true_and]
      by_cases hj : (j == idx) = true
      · have ej : j = idx := by simpa using hj
        subst ej
        have hne : (j != j) = false := by simp
        have hst : (stepM j g st (j, f)) = groupCurrentSet st g j := by simp [stepM]
        rw [hst, foldl_members g j fs (j + 1) (pre ++ [s]) ss (groupCurrentSet st g j)
          (by simp [groupCurrentSet, hs]) (by simp [hp]) hl']
        simp only [hne, Bool.false_eq_true, if_false, List.any_cons, hj, Bool.true_or, if_true, groupCurrentSet]
        cases st
        simp only [MState.mk.injEq, List.append_assoc, List.singleton_append, true_and]
        split <;> simp [set_idem]
      · have hj' : (j == idx) = false := by simpa using hj
        have hne : (j != idx) = true := by simp [bne, hj']
        have hst : (stepM idx g st (j, f)) = rawSet st j .ph := by simp [stepM, hj']
        have hsl : (rawSet st j .ph).slots = (pre ++ [Val.ph]) ++ ss := by
          simp only [rawSet, setAt, hs]
          rw [← hp]
          simp
        rw [hst, foldl_members g idx fs (j + 1) (pre ++ [Val.ph]) ss (rawSet st j .ph) hsl (by simp [hp]) hl']
        simp only [hne, if_true, List.any_cons, hj', Bool.false_or, rawSet]
        cases st
        simp
    · have hm' : (f.group == some g) = false := by simpa using hm
      simp only [hm', Bool.false_eq_true, if_false, Bool.false_and]
      rw [foldl_members g idx fs (j + 1) (pre ++ [s]) ss st (by simp [hs]) (by simp [hp]) hl']
      cases st
      simp

theorem markEmpty_eq (S : Schema) (v : Val) :
    (if (isMessage v && (hasBetterproto v && !(!(valFields S v).isEmpty))) = true then valSetOnWire v true else v) = markEmpty S v := by
  cases v <;> simp [markEmpty, isMessage, isMsgVal, hasBetterproto, valFields, valSetOnWire]

/-- **`Message.__setattr__` as written is the model's `setAttr`** for every schema, class, state,
    field name and value -/
theorem setattr_eq (S : Schema) (fs : List FieldD) (st : MState) (idx : Nat) (v : Val)
    (hi : idx < fs.length) (hl : st.slots.length = fs.length) :
    Src.setattr S fs st idx v = .ok (setAttr S fs st idx v) := by
  have hf : fs[idx]? = some fs[idx] := List.getElem?_eq_getElem hi
  unfold Src.setattr setAttr
  simp only [hf]
  have hv : ∀ (k : Val → Res MState),
      (((if (isMessage v && (hasBetterproto v && !(!(valFields S v).isEmpty))) = true then
          (let value := valSetOnWire v true; Res.ok value) else Res.ok v) : Res Val).bind k) = k (markEmpty S v) := by
    intro k
    rw [← markEmpty_eq S v]
    split <;> rfl
  rw [hv]
  simp only [nameIsStr, Bool.not_false, if_true, res_bind_ok, hasGroupCurrent, oneofGroupByField, hf, Option.bind_some]
  cases hg : (fs[idx]).group with
  | none =>
    simp [setOnWire, rawSet]
  | some g =>
    simp only [Option.isSome_some, if_true, lookup, res_bind_ok, oneofFieldByGroup]
    rw [setattr_loop]
    simp only [res_bind_ok]
    rw [foldl_members g idx fs 0 [] st.slots (setOnWire st true) (by simp [setOnWire]) rfl hl]
    have ha := any_members g fs 0 idx fs[idx] hf hg
    simp only [Nat.zero_add] at ha
    simp [ha, setOnWire, rawSet]

/-! ### `__getattribute__` -/

theorem setAt_getD_self (xs : List Val) (i : Nat) : setAt xs i (xs.getD i .ph) = xs := by
  unfold setAt
  by_cases h : i < xs.length
  · simp [List.getD_eq_getElem?_getD, List.getElem?_eq_getElem h]
  · rw [List.set_eq_of_length_le (by omega)]

theorem isPlaceholder_false (v : Val) (h : isPlaceholder v = false) (S : Schema) (f : FieldD) : materialize S f v = v := by
  cases v <;> first | rfl | simp [isPlaceholder] at h

theorem isPlaceholder_true (v : Val) (h : isPlaceholder v = true) : v = .ph := by
  cases v <;> first | rfl | simp [isPlaceholder] at h

/-- the part of `__getattribute__` after the oneof test: raw read, lazy default stored on first read -/
theorem getattr_tail (S : Schema) (fs : List FieldD) (st : MState) (idx : Nat) (f : FieldD) (hf : fs[idx]? = some f) :
    (let value := rawGet st idx
     if (!isPlaceholder value) = true then Res.ok (value, st)
     else (getFieldDefault S fs idx).bind fun t => (let value := t; let self := rawSet st idx value; Res.ok (value, self)))
      = .ok (materialize S f (st.slots.getD idx .ph), { st with slots := setAt st.slots idx (materialize S f (st.slots.getD idx .ph)) }) := by
  simp only [rawGet]
  cases hp : isPlaceholder (st.slots.getD idx .ph) with
  | false =>
    simp only [Bool.not_false, if_true]
    rw [isPlaceholder_false _ hp, setAt_getD_self]
  | true =>
    simp only [Bool.not_true, Bool.false_eq_true, if_false, getFieldDefault, hf, res_bind_ok, rawSet]
    rw [isPlaceholder_true _ hp]
    rfl

/-- **`Message.__getattribute__` as written is the model's `getAttr`**: AttributeError exactly
    for a oneof member that is not the selected one, otherwise the value, a PLACEHOLDER slot
    being replaced by the default, which is stored -/
theorem getattribute_eq (S : Schema) (fs : List FieldD) (st : MState) (idx : Nat)
    (hi : idx < fs.length) (hgl : ∀ g, (fs[idx]).group = some g → g < st.cur.length) :
    Src.getattribute S fs st idx = ofR (getAttr S fs st idx) := by
  have hf : fs[idx]? = some fs[idx] := List.getElem?_eq_getElem hi
  unfold Src.getattribute getAttr
  simp only [superGetGroupCurrent, nameIsStr, Bool.or_self, Bool.not_false, if_true, hf, oneofGroupByField, Option.bind_some]
  have ht := getattr_tail S fs st idx fs[idx] hf
  simp only at ht
  cases hg : (fs[idx]).group with
  | none =>
    simp only [res_bind_ok, Bool.false_eq_true, if_false, hidden, hg]
    rw [ht]; rfl
  | some g =>
    have hlt := hgl g hg
    simp only [groupCurrentIndex, hlt, if_true, res_bind_ok, hidden, hg]
    cases hc : (st.cur.getD g Option.none == some idx) with
    | true =>
      simp only [Bool.not_true, Bool.false_eq_true, if_false, bne, hc]
      rw [ht]; rfl
    | false =>
      simp only [Bool.not_false, if_true, bne, hc]
      split <;> rfl

/-! ### `which_one_of` -/

/-- `betterproto.which_one_of(m, group)` in full: the selected member and its value (read
    through `getattr`, so a lazy default is stored), `("", None)` when nothing is selected.
    The model has the name half only (`C07.whichOneOf`); this is the obvious completion. -/
def whichOneOfM (S : Schema) (fs : List FieldD) (st : MState) (g : Nat) : R ((Option Nat × Val) × MState) :=
  match st.cur.getD g Option.none with
  | Option.none => .ok ((Option.none, Val.none), st)
  | some i => (getAttr S fs st i).bind fun r => .ok ((some i, r.1), r.2)

theorem which_one_of_eq (S : Schema) (fs : List FieldD) (st : MState) (g : Nat)
    (hsel : ∀ i, st.cur.getD g Option.none = some i → i < fs.length ∧ ∀ f g', fs[i]? = some f → f.group = some g' → g' < st.cur.length) :
    Src.which_one_of S fs st g = ofR (whichOneOfM S fs st g) := by
  unfold Src.which_one_of whichOneOfM
  simp only [groupCurrentGet, getGroupCurrent]
  cases hc : st.cur.getD g Option.none with
  | none => rfl
  | some i =>
    obtain ⟨hi, hg⟩ := hsel i hc
    simp only
    rw [getattribute_eq S fs st i hi (fun g' e => hg _ g' (List.getElem?_eq_getElem hi) e)]
    cases getAttr S fs st i with
    | error e => rfl
    | ok r => rfl

/-! ### `_include_default_value_for_oneof` -/

theorem include_default_eq (S : Schema) (fs : List FieldD) (st : MState) (idx : Nat) (f : FieldD) :
    Src.include_default_value_for_oneof S fs st idx f = .ok (selectedInGroup f idx st.cur) := by
  unfold Src.include_default_value_for_oneof selectedInGroup
  simp only [metaGroup, groupCurrentGet, getGroupCurrent]
  cases f.group <;> rfl

end Bp.SrcTieObj
