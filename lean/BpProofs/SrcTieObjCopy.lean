import BpProofs.Gen.SrcObjCopy
import BpProofs.Ops
/-
  THE TIE BETWEEN THE TRANSLATED OBJECT METHODS AND THE HAND-WRITTEN MODEL, third group:
  `Message.__copy_state_to(self, clone, dup)` — what `__copy__` (`dup` = identity) and
  `__deepcopy__` (`dup` = `copy.deepcopy`) transfer to the fresh instance `self.__class__()` —
  against `shallowCopy` / `deepCopy` of BpModel/Ops.lean.

  Guard: the original has one raw slot per field (`FullVal`).  The translator refuses a body that
  stores a REFERENCE to `self._group_current` in the clone (aliasing cannot be expressed in the
  value model; that the copy's dict is a different object is `C14.deepcopy_disjoint`'s subject).
-/
set_option linter.unusedSimpArgs false
set_option linter.unusedVariables false
namespace Bp.SrcTieObjCopy
open Bp Bp.Py

@[simp] theorem res_bind_ok {α β} (a : α) (f : α → Res β) : (Res.ok a).bind f = f a := rfl

/-- the dataclass default of a field on a fresh instance -/
def freshV (f : FieldD) : Val := if f.optional then Val.none else Val.ph

/-- the slots of the clone: a PLACEHOLDER slot of the original leaves the fresh instance's default
    in place, any other value is stored after `dup` -/
def copySlot (dup : Val → Val) (f : FieldD) : Val → Val
  | .ph => freshV f
  | v => dup v
def copySlots (dup : Val → Val) : List FieldD → List Val → List Val
  | f :: fs, v :: vs => copySlot dup f v :: copySlots dup fs vs
  | _, _ => []

/-- the state `__copy_state_to` leaves in the clone -/
def copyM (dup : Val → Val) (fs : List FieldD) (st : MState) : MState :=
  { slots := copySlots dup fs st.slots, onWire := st.onWire, unknown := st.unknown, cur := st.cur }

theorem slot_nonph (dup : Val → Val) (f : FieldD) (v : Val) (h : isPlaceholder v = false) :
    copySlot dup f v = dup v := by
  cases v <;> first | rfl | simp [isPlaceholder] at h

theorem copy_loop (S : Schema) (fs : List FieldD) (st : MState) (dup : Val → Val) :
    ∀ (fs' : List FieldD) (ss pre : List Val) (j : Nat) (clone : MState),
    ss.length = fs'.length → pre.length = j → clone.slots = pre ++ fs'.map freshV →
    (∀ k, ss.getD k .ph = st.slots.getD (j + k) .ph) →
    Src.copy_state_to.loop1 S fs st dup (List.range' j fs'.length) clone
      = .ok { clone with slots := pre ++ copySlots dup fs' ss }
  | [], ss, pre, j, clone, _, _, hc, _ => by
    cases clone
    simp only [List.map_nil, List.append_nil] at hc
    simp [List.range', Src.copy_state_to.loop1, copySlots, hc]
  | f :: fs', [], _, _, _, hl, _, _, _ => by simp at hl
  | f :: fs', v :: vs, pre, j, clone, hl, hp, hc, hs => by
    have hv : st.slots.getD j .ph = v := by have := hs 0; simpa using this.symm
    have hs' : ∀ k, vs.getD k .ph = st.slots.getD (j + 1 + k) .ph := by
      intro k; have := hs (k + 1); simp only [List.getD_cons_succ] at this; rw [this]; congr 1; omega
    simp only [List.length_cons, List.range'_succ]
    rw [Src.copy_state_to.loop1]
    simp only [rawGet, hv]
    cases hph : isPlaceholder v with
    | true =>
      have : v = .ph := by cases v <;> first | rfl | simp [isPlaceholder] at hph
      subst this
      simp only [Bool.not_true, Bool.false_eq_true, if_false, res_bind_ok]
      rw [copy_loop S fs st dup fs' vs (pre ++ [freshV f]) (j + 1) clone (by simpa using hl) (by simp [hp])
        (by simp [hc]) hs']
      simp [copySlots, copySlot]
    | false =>
      simp only [Bool.not_false, if_true, res_bind_ok]
      have hsl : (rawSet clone j (dup v)).slots = (pre ++ [dup v]) ++ fs'.map freshV := by
        simp only [rawSet, setAt, hc, List.map_cons]
        rw [← hp]
        simp
      rw [copy_loop S fs st dup fs' vs (pre ++ [dup v]) (j + 1) (rawSet clone j (dup v)) (by simpa using hl) (by simp [hp])
        hsl hs']
      simp only [copySlots, rawSet, List.append_assoc, List.singleton_append]
      rw [slot_nonph dup f v hph]

/-- **`__copy_state_to` as written**, run on a clone that is a fresh instance of the class, leaves
    in it: every non-PLACEHOLDER raw slot of the original after `dup`, the original's
    `_serialized_on_wire`, `_unknown_fields` and the entries of its `_group_current` -/
theorem copy_state_to_eq (S : Schema) (fs : List FieldD) (st clone : MState) (dup : Val → Val)
    (hl : st.slots.length = fs.length) (hc : clone.slots = fs.map freshV) :
    Src.copy_state_to S fs st clone dup = .ok (copyM dup fs st) := by
  unfold Src.copy_state_to sortedFieldNames
  rw [List.range_eq_range', copy_loop S fs st dup fs st.slots [] 0 clone hl rfl (by simpa using hc) (by intro k; simp)]
  simp [copyM, setOnWire, setUnknown, setGroupCurrent, getOnWire, getUnknown, getGroupCurrent, dictCopy]

theorem freshState_slots (d : MsgD) : (freshState d).slots = d.fields.map freshV := rfl

theorem shallow_slots : ∀ (fs : List FieldD) (sl : List Val),
    ((sl.zip fs).map fun (p : Val × FieldD) => match p.1 with
      | .ph => if p.2.optional then Val.none else Val.ph
      | v => v) = copySlots id fs sl
  | [], sl => by cases sl <;> simp [copySlots]
  | f :: fs, [] => by simp [copySlots]
  | f :: fs, v :: sl => by
    simp only [List.zip_cons_cons, List.map_cons, copySlots]
    rw [shallow_slots fs sl]
    cases v <;> rfl

/-- with `dup` = identity the clone is the model's `shallowCopy` -/
theorem copyM_shallow (S : Schema) (c : Nat) (st : MState) :
    (copyM id (fieldsOf S c) st).toVal c = shallowCopy S (st.toVal c) := by
  simp only [copyM, MState.toVal, shallowCopy]
  congr 1
  exact (shallow_slots (fieldsOf S c) st.slots).symm

theorem deep_slots (S : Schema) : ∀ (fs : List FieldD) (sl : List Val),
    deepCopySlots S fs sl = copySlots (deepCopy S) fs sl
  | [], sl => by rw [deepCopySlots]; simp [copySlots]; intros; contradiction
  | f :: fs, [] => by rw [deepCopySlots]; simp [copySlots]; intros; contradiction
  | f :: fs, v :: sl => by
    rw [deepCopySlots_cons, deep_slots S fs sl]
    simp only [copySlots]
    cases v <;> rfl

/-- with `dup` = `deepcopy` the clone is the model's `deepCopy` -/
theorem copyM_deep (S : Schema) (c : Nat) (st : MState) :
    (copyM (deepCopy S) (fieldsOf S c) st).toVal c = deepCopy S (st.toVal c) := by
  simp only [copyM, MState.toVal]
  rw [deepCopy, deep_slots]

end Bp.SrcTieObjCopy
