import BpProofs.Gen.SrcObjObs
import BpProofs.EqSound
/-
  THE TIE BETWEEN THE TRANSLATED OBJECT METHODS AND THE HAND-WRITTEN MODEL, second group — the
  observers `Message.__bool__`, `serialized_on_wire`, `Message.is_set`, `Message.__eq__`
  (BpProofs/Gen/SrcObjObs.lean, regenerated from the Python AST on every run) against
  `slotsEqFresh` (BpModel/Value.lean), `isSet` (BpModel/Obj.lean), `slotsEq` / `msgEq`
  (BpModel/Eq.lean).  That these methods are OBSERVERS is visible in the type of their
  translation: no state comes back (a write to `self` / `other` makes the translator refuse).

  Guards: `__eq__` — both instances have one raw slot per field (`FullVal`); `is_set` — the name
  is a field.  `__bool__` / `serialized_on_wire` need none.
-/
set_option linter.unusedSimpArgs false
set_option linter.unusedVariables false
namespace Bp.SrcTieObjObs
open Bp Bp.Py Bp.EqS

@[simp] theorem res_bind_ok {α β} (a : α) (f : α → Res β) : (Res.ok a).bind f = f a := rfl
@[simp] theorem res_bind_raise {α β} (e : PyErr) (f : α → Res β) : (Res.raise e : Res α).bind f = .raise e := rfl

theorem isPlaceholder_iff (v : Val) : isPlaceholder v = true ↔ v = .ph := by
  cases v <;> simp [isPlaceholder]

theorem slotsEqFresh_nil_right (S : Schema) (fs : List FieldD) : slotsEqFresh S fs [] = true := by
  cases fs <;> rw [slotsEqFresh] <;> (intros; contradiction)

theorem slotsEqFresh_nil_left (S : Schema) (vs : List Val) : slotsEqFresh S [] vs = true := by
  rw [slotsEqFresh]; intros; contradiction

/-! ### `__bool__` -/

theorem any1_eq (S : Schema) (fs : List FieldD) (st : MState) : ∀ (fs' : List FieldD) (sl' : List Val) (j : Nat),
    (∀ k, fs'[k]? = fs[j + k]?) → (∀ k, sl'.getD k .ph = st.slots.getD (j + k) .ph) →
    Src.msg_bool.any1 S fs st (List.range' j fs'.length) = .ok (!slotsEqFresh S fs' sl')
  | [], sl', j, _, _ => by
    simp [List.range', Src.msg_bool.any1, slotsEqFresh_nil_left]
  | f :: fs', sl', j, hf, hs => by
    have hfj : fs[j]? = some f := by have := hf 0; simpa using this.symm
    have hsj : st.slots.getD j .ph = sl'.getD 0 .ph := by have := hs 0; simpa using this.symm
    have hf' : ∀ k, fs'[k]? = fs[j + 1 + k]? := by
      intro k; have := hf (k + 1); simp only [List.getElem?_cons_succ] at this; rw [this]; congr 1; omega
    simp only [List.length_cons, List.range'_succ]
    rw [Src.msg_bool.any1]
    simp only [eqFieldDefaultOf, hfj, rawGet, hsj, res_bind_ok]
    cases sl' with
    | nil =>
      have hs' : ∀ k, ([] : List Val).getD k .ph = st.slots.getD (j + 1 + k) .ph := by
        intro k; have := hs (k + 1); simp only [List.getD_nil] at this ⊢; rw [this]; congr 1; omega
      simp only [List.getD_nil, isPlaceholder, Bool.true_or, Bool.not_true, Bool.false_eq_true, if_false]
      rw [any1_eq S fs st fs' [] (j + 1) hf' hs', slotsEqFresh_nil_right, slotsEqFresh_nil_right]
    | cons v vs =>
      have hs' : ∀ k, vs.getD k .ph = st.slots.getD (j + 1 + k) .ph := by
        intro k; have := hs (k + 1); simp only [List.getD_cons_succ] at this; rw [this]; congr 1; omega
      simp only [List.getD_cons_zero]
      rw [slotsEqFresh_cons, any1_eq S fs st fs' vs (j + 1) hf' hs']
      have hd : (isPlaceholder v || eqDefault S f.defKind v) = isDefSlot S f v := by
        cases v <;> rfl
      rw [hd]
      cases isDefSlot S f v <;> simp

/-- **`Message.__bool__` as written**: some raw slot is neither PLACEHOLDER nor equal to the
    field default — the negation of the model's `slotsEqFresh` (what PyPreludeDyn's `truthyVal`
    already says of a Message value) -/
theorem msg_bool_eq (S : Schema) (fs : List FieldD) (st : MState) :
    Src.msg_bool S fs st = .ok (!slotsEqFresh S fs st.slots) := by
  unfold Src.msg_bool fieldNames
  rw [List.range_eq_range', any1_eq S fs st fs st.slots 0 (by intro k; simp) (by intro k; simp)]
  rfl

/-- `betterproto.serialized_on_wire(m)` in the model (the driver's `sowObs`): the flag, or some
    field holding a non-default value -/
def sowM (S : Schema) (fs : List FieldD) (st : MState) : Bool := st.onWire || !slotsEqFresh S fs st.slots

theorem serialized_on_wire_eq (S : Schema) (fs : List FieldD) (st : MState) :
    Src.serialized_on_wire S fs st = .ok (sowM S fs st) := by
  unfold Src.serialized_on_wire sowM
  rw [msg_bool_eq]
  by_cases h : st.onWire = true
  · simp [getOnWire, h]
  · have h' : st.onWire = false := by simpa using h
    simp [getOnWire, h']

/-! ### `is_set` -/

theorem is_set_eq (S : Schema) (fs : List FieldD) (st : MState) (idx : Nat) (f : FieldD) (hf : fs[idx]? = some f) :
    Src.is_set S fs st idx = .ok (isSet f (st.slots.getD idx .ph)) := by
  unfold Src.is_set isSet
  simp only [metaByFieldName, hf, res_bind_ok, metaOptional, rawGet]
  generalize st.slots.getD idx .ph = v
  by_cases h : f.optional = true
  · cases v <;> simp [isSame, h]
  · have h' : f.optional = false := by simpa using h
    cases v <;> simp [isSame, h']

/-! ### `__eq__` -/

/-- what one iteration decides: go on (the slots compare equal) or return False -/
theorem cont_eq {α : Type} (S : Schema) (ne : Val → Val → Bool) (hne : ∀ a b, ne a b = false → valEq S a b = true)
    (x y : Val) (A B : α) :
    (if ne x y = true then (if equalOrBothNan S x y = true then A else B) else A) = if valEq S x y = true then A else B := by
  simp only [equalOrBothNan]
  cases h : ne x y with
  | true => simp
  | false => simp [hne x y h]

theorem eq_loop (S : Schema) (fs : List FieldD) (ne : Val → Val → Bool) (sameType : Bool) (a b : MState)
    (hne : ∀ x y, ne x y = false → valEq S x y = true) : ∀ (fs' : List FieldD) (as bs : List Val) (j : Nat),
    as.length = fs'.length → bs.length = fs'.length →
    (∀ k, fs'[k]? = fs[j + k]?) → (∀ k, as.getD k .ph = a.slots.getD (j + k) .ph) → (∀ k, bs.getD k .ph = b.slots.getD (j + k) .ph) →
    Src.msg_eq.loop1 S fs ne sameType a b (List.range' j fs'.length) ()
      = .ok (if slotsEq S fs' as bs = true then Ctl.next () else Ctl.ret (EqRes.bool false))
  | [], as, bs, j, _, _, _, _, _ => by
    simp [List.range', Src.msg_eq.loop1, slotsEq_nil_fields]
  | f :: fs', [], _, j, ha, _, _, _, _ => by simp at ha
  | f :: fs', _ :: _, [], j, _, hb, _, _, _ => by simp at hb
  | f :: fs', x :: as, y :: bs, j, ha, hb, hf, hsa, hsb => by
    have hfj : fs[j]? = some f := by have := hf 0; simpa using this.symm
    have hxa : a.slots.getD j .ph = x := by have := hsa 0; simpa using this.symm
    have hyb : b.slots.getD j .ph = y := by have := hsb 0; simpa using this.symm
    have hf' : ∀ k, fs'[k]? = fs[j + 1 + k]? := by
      intro k; have := hf (k + 1); simp only [List.getElem?_cons_succ] at this; rw [this]; congr 1; omega
    have hsa' : ∀ k, as.getD k .ph = a.slots.getD (j + 1 + k) .ph := by
      intro k; have := hsa (k + 1); simp only [List.getD_cons_succ] at this; rw [this]; congr 1; omega
    have hsb' : ∀ k, bs.getD k .ph = b.slots.getD (j + 1 + k) .ph := by
      intro k; have := hsb (k + 1); simp only [List.getD_cons_succ] at this; rw [this]; congr 1; omega
    have ih := eq_loop S fs ne sameType a b hne fs' as bs (j + 1) (by simpa using ha) (by simpa using hb) hf' hsa' hsb'
    simp only [List.length_cons, List.range'_succ]
    rw [Src.msg_eq.loop1]
    simp only [rawGet, hxa, hyb, getFieldDefault, hfj, res_bind_ok]
    rw [slotsEq_cons, ih]
    by_cases hx : x = .ph
    · subst hx
      by_cases hy : y = .ph
      · subst hy
        simp [isPlaceholder, slotEqB_ph_ph]
      · have hy' : isPlaceholder y = false := by
          cases h : isPlaceholder y with
          | false => rfl
          | true => exact absurd ((isPlaceholder_iff y).1 h) hy
        simp only [isPlaceholder, if_true, hy', Bool.false_eq_true, if_false]
        rw [cont_eq S ne hne, slotEqB_ph_left S f y hy]
        unfold defaultOf
        rw [valEq_default_left]
        cases defEq S f.defKind y <;> simp
    · have hx' : isPlaceholder x = false := by
        cases h : isPlaceholder x with
        | false => rfl
        | true => exact absurd ((isPlaceholder_iff x).1 h) hx
      simp only [hx', Bool.false_eq_true, if_false]
      by_cases hy : y = .ph
      · subst hy
        simp only [isPlaceholder, if_true, res_bind_ok]
        rw [cont_eq S ne hne, slotEqB_ph_right S f x hx]
        unfold defaultOf
        rw [valEq_default_right]
        cases defEq S f.defKind x <;> simp
      · have hy' : isPlaceholder y = false := by
          cases h : isPlaceholder y with
          | false => rfl
          | true => exact absurd ((isPlaceholder_iff y).1 h) hy
        simp only [hy', Bool.false_eq_true, if_false, res_bind_ok]
        rw [cont_eq S ne hne, slotEqB_set S f x y hx hy]
        cases valEq S x y <;> simp

/-- **`Message.__eq__` as written**: NotImplemented for an operand of another class, otherwise the
    model's `slotsEq` over the raw slots (PLACEHOLDER on both sides skipped, PLACEHOLDER on one side
    compared through the field default, `_equal_or_both_nan` deciding).  `ne` is the oracle for
    Python's `!=` on two field values: all that is assumed of it is that values it does not
    report unequal are equal in the sense of `_equal_or_both_nan`. -/
theorem msg_eq_eq (S : Schema) (fs : List FieldD) (ne : Val → Val → Bool) (sameType : Bool) (a b : MState)
    (hne : ∀ x y, ne x y = false → valEq S x y = true)
    (ha : a.slots.length = fs.length) (hb : b.slots.length = fs.length) :
    Src.msg_eq S fs ne sameType a b
      = .ok (if sameType then EqRes.bool (slotsEq S fs a.slots b.slots) else EqRes.notImplemented) := by
  unfold Src.msg_eq fieldNames
  cases sameType with
  | false => rfl
  | true =>
    simp only [Bool.not_true, Bool.false_eq_true, if_false, if_true]
    rw [List.range_eq_range', eq_loop S fs ne true a b hne fs a.slots b.slots 0 ha hb (by intro k; simp) (by intro k; simp)
      (by intro k; simp)]
    cases slotsEq S fs a.slots b.slots <;> rfl

end Bp.SrcTieObjObs
