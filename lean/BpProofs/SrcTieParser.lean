import BpProofs.Gen.SrcParser
import BpProofs.SrcTiePlugin
import BpProofs.PluginTraverse
/-
  THE TIE BETWEEN THE TRANSLATED SOURCE OF plugin/parser.py AND THE HAND-WRITTEN MODEL (C03), part 1:
  `traverse` / `_traverse`, `read_protobuf_type` (+ `_make_one_of_field_compiler`), `read_protobuf_service`.

  `Bp.Src.Parser.*` (BpProofs/Gen/SrcParser.lean) is regenerated from the Python AST of
  src/betterproto/plugin/parser.py on every run.  The theorems below say that

    * the generator `traverse` as written yields, for every file whose nesting depth is below the fuel, exactly
      the list `pFile` — the model's `Plugin.traverse` (same items, same order, same flattened names), each item as
      the object it is at the moment of the `yield` (`Item.toD`: own name replaced by the flattened name, nested
      names untouched) and with the source-code-info path descriptor.proto prescribes for it (`pFile`);
    * `read_protobuf_type` as written appends to the OutputTemplate exactly `readLog`: nothing for a map-entry
      message, one `MessageCompiler` + one field compiler per field — of the class the MODEL's classification
      (`isMap`, `isOneof`, the pydantic flag) picks — for any other message, one `EnumDefinitionCompiler` for an enum;
    * `read_protobuf_service` as written appends one `ServiceCompiler` and one `ServiceMethodCompiler` per method.

  What is trusted is the meaning of the Python primitives fixed in BpProofs/PyPrelude*.lean (PyPreludeParser.lean for
  generators, descriptor objects and compiler-object constructions).
-/
set_option linter.unusedSimpArgs false
set_option linter.unusedVariables false
namespace Bp.SrcTieParser
open Bp Bp.Py Bp.Py.Prs Bp.Importing Bp.Plugin Bp.Src.Parser

/-! ### what `traverse` is expected to yield: the model's items with their paths -/

/-- a model item as the object the generator yields: its `name` is the flattened name -/
def toD : Item → DItem
  | .enum flat e => .enum { e with name := flat }
  | .msg flat m => .msg (setMsgName m flat)

/-- `_traverse(path, <enums>, pre)` counting from `i`: every enum renamed `pre_<name>`, at `path + [index]` -/
def pEnums (path : List Int) (pre : Name) : Int → List EnumP → List (DItem × List Int)
  | _, [] => []
  | i, e :: es => (.enum { e with name := pre ++ '_' :: e.name }, path ++ [i]) :: pEnums path pre (i + 1) es

mutual
/-- `_traverse(path, <messages>, pre)` counting from `i` -/
def pMsgs (path : List Int) (pre : Name) : Int → List MsgP → List (DItem × List Int)
  | _, [] => []
  | i, m :: ms => pMsg path pre i m ++ pMsgs path pre (i + 1) ms
/-- one message: itself (renamed) at `path + [i]`, then its enums under `path + [i, 4]` (DescriptorProto.enum_type = 4),
    then its nested messages under `path + [i, 3]` (DescriptorProto.nested_type = 3), both with the new prefix -/
def pMsg (path : List Int) (pre : Name) (i : Int) : MsgP → List (DItem × List Int)
  | .mk n fs ns es os me =>
    (.msg (.mk (pre ++ '_' :: n) fs ns es os me), path ++ [i])
      :: (pEnums (path ++ [i, 4]) (pre ++ '_' :: n) 0 es ++ pMsgs (path ++ [i, 3]) (pre ++ '_' :: n) 0 ns)
end

/-- `traverse(file)`: enums under `[5]` (FileDescriptorProto.enum_type = 5), then messages under `[4]`
    (FileDescriptorProto.message_type = 4) -/
def pFile (fd : FileD) : List (DItem × List Int) := pEnums [5] [] 0 fd.enums ++ pMsgs [4] [] 0 fd.messages

/-- the model's view of a FileDescriptorProto -/
def toFileP (fd : FileD) : FileP := ⟨fd.package, fd.messages, fd.enums⟩

mutual
/-- nesting depth of a list of messages (0 for none) -/
def depthMsgs : List MsgP → Nat
  | [] => 0
  | m :: ms => max (depthMsg m) (depthMsgs ms)
def depthMsg : MsgP → Nat
  | .mk _ _ ns _ _ _ => depthMsgs ns + 1
end

/-! ### `_traverse` as written -/

theorem loop_enums (fuel : Nat) (rec_ : List Int → List DItem → Str → Res (List (DItem × List Int)))
    (path : List Int) (pre : Str) : ∀ (es : List EnumP) (i : Int) (acc : List (DItem × List Int)),
    traverse._traverse.loop1 fuel rec_ path pre i (es.map .enum) acc = .ok (acc ++ pEnums path pre i es)
  | [], i, acc => by simp [traverse._traverse.loop1, pEnums]
  | e :: es, i, acc => by
    simp only [List.map_cons, traverse._traverse.loop1, setItemName, itemName, Res.bind]
    rw [loop_enums fuel rec_ path pre es (i + 1)]
    simp [pEnums]

/-- the fuel a list of messages needs: more than its nesting depth -/
theorem traverse_aux : ∀ (fuel : Nat),
    (∀ (path : List Int) (pre : Str) (es : List EnumP), 0 < fuel →
      traverse._traverse fuel path (es.map .enum) pre = .ok (pEnums path pre 0 es))
    ∧ (∀ (path : List Int) (pre : Str) (ms : List MsgP), depthMsgs ms < fuel →
      traverse._traverse fuel path (ms.map .msg) pre = .ok (pMsgs path pre 0 ms))
  | 0 => ⟨fun _ _ _ h => absurd h (Nat.lt_irrefl 0), fun _ _ _ h => absurd h (Nat.not_lt_zero _)⟩
  | fuel + 1 => by
    obtain ⟨ihE, ihM⟩ := traverse_aux fuel
    refine ⟨?_, ?_⟩
    · intro path pre es _
      simp only [traverse._traverse]
      rw [loop_enums]; rfl
    · intro path pre ms hd
      have key : ∀ (ms : List MsgP) (i : Int) (acc : List (DItem × List Int)), depthMsgs ms < fuel + 1 →
          traverse._traverse.loop1 fuel (traverse._traverse fuel) path pre i (ms.map .msg) acc
            = .ok (acc ++ pMsgs path pre i ms) := by
        intro ms
        induction ms with
        | nil => intro i acc _; simp [traverse._traverse.loop1, pMsgs]
        | cons m r ih =>
          intro i acc hd
          cases m with
          | mk n fs ns es os me =>
            have h1 : depthMsgs ns < fuel := by
              have : depthMsg (.mk n fs ns es os me) < fuel + 1 := by
                unfold depthMsgs at hd; omega
              unfold depthMsg at this; omega
            have h0 : 0 < fuel := by omega
            have h2 : depthMsgs r < fuel + 1 := by unfold depthMsgs at hd; omega
            simp only [List.map_cons, traverse._traverse.loop1, setItemName, setMsgName, itemName, MsgP.name,
              enumType, nestedType, MsgP.enums, MsgP.nested, Res.bind]
            rw [ihE _ _ es h0, ihM _ _ ns h1]
            simp only [Res.bind]
            rw [ih (i + 1) _ h2]
            simp [pMsgs, pMsg]
      simp only [traverse._traverse]
      rw [key ms 0 [] hd]; rfl

/-- **`traverse` as written** yields `pFile` on every file whose nesting depth is below the fuel -/
theorem traverse_eq (fuel : Nat) (fd : FileD) (h : depthMsgs fd.messages < fuel) :
    Src.Parser.traverse fuel fd = .ok (pFile fd) := by
  have h0 : 0 < fuel := by omega
  unfold Src.Parser.traverse pFile fileEnumType fileMessageType
  rw [(traverse_aux fuel).1 _ _ _ h0, (traverse_aux fuel).2 _ _ _ h]
  simp [Res.bind]

/-- … and with too little fuel it reports `.diverge` at once at fuel 0 (never a wrong list) -/
theorem traverse_zero (fd : FileD) : Src.Parser.traverse 0 fd = .diverge := by
  simp [Src.Parser.traverse, traverse._traverse, Res.bind]

/-! ### `pFile` against the model's `Plugin.traverse` -/

theorem pEnums_fst (path : List Int) (pre : Name) : ∀ (es : List EnumP) (i : Int),
    (pEnums path pre i es).map Prod.fst = (travEnums pre es).map toD
  | [], _ => rfl
  | e :: es, i => by simp [pEnums, travEnums, toD, pEnums_fst path pre es (i + 1)]

mutual
theorem pMsgs_fst (path : List Int) (pre : Name) : ∀ (ms : List MsgP) (i : Int),
    (pMsgs path pre i ms).map Prod.fst = (travMsgs pre ms).map toD
  | [], _ => rfl
  | m :: ms, i => by
    simp only [pMsgs, travMsgs, List.map_append]
    rw [pMsg_fst path pre i m, pMsgs_fst path pre ms (i + 1)]
theorem pMsg_fst (path : List Int) (pre : Name) (i : Int) : ∀ (m : MsgP),
    (pMsg path pre i m).map Prod.fst = (travMsg pre m).map toD
  | .mk n fs ns es os me => by
    simp only [pMsg, travMsg, List.map_cons, List.map_append]
    rw [pEnums_fst, pMsgs_fst (path ++ [i, 3]) (pre ++ '_' :: n) ns 0]
    simp [toD, setMsgName]
end

/-- the items of `pFile` are the model's items, in the model's order, as yielded -/
theorem pFile_fst (fd : FileD) : (pFile fd).map Prod.fst = (Plugin.traverse (toFileP fd)).map toD := by
  unfold pFile Plugin.traverse toFileP
  simp only [List.map_append, pEnums_fst, pMsgs_fst]

/-! ### what a yielded item contributes: the model's `itemKey` / `readItem` on the object as yielded -/

/-- flattened name and kind of a yielded object (map entries: nothing) -/
def dKey : DItem → Option (Name × TypeKind)
  | .enum e => some (e.name, .enum)
  | .msg m => if m.mapEntry then none else some (m.name, .message)

theorem dKey_toD (it : Item) : dKey (toD it) = itemKey it := by
  cases it with
  | enum flat e => rfl
  | msg flat m => cases m; rfl

/-- the model's `readItem` on the object as yielded -/
def readD (nm : Naming) : DItem → Option (Option Class)
  | .enum e => some (some (compileEnum nm e.name e))
  | .msg m => if m.mapEntry then some none
              else (compileFields nm m m.fields).map fun cs => some (.message (nm.cls m.name) cs)

theorem getMapEntry_setName (f : FieldP) (m : MsgP) (v : Name) :
    getMapEntry f (setMsgName m v) = getMapEntry f m := by cases m; rfl

theorem compileField_setName (nm : Naming) (m : MsgP) (v : Name) (f : FieldP) :
    compileField nm (setMsgName m v) f = compileField nm m f := by
  cases m; rfl

theorem compileFields_setName (nm : Naming) (m : MsgP) (v : Name) : ∀ fs : List FieldP,
    compileFields nm (setMsgName m v) fs = compileFields nm m fs
  | [] => rfl
  | f :: fs => by simp only [compileFields, compileField_setName, compileFields_setName nm m v fs]

/-- `compileEnum` reads the enum's values only -/
theorem compileEnum_setName (nm : Naming) (flat : Name) (e : EnumP) :
    compileEnum nm flat { e with name := flat } = compileEnum nm flat e := rfl

theorem readD_toD (nm : Naming) (it : Item) : readD nm (toD it) = readItem nm it := by
  cases it with
  | enum flat e => rfl
  | msg flat m =>
    cases m with
    | mk n fs ns es os me =>
      have h := compileFields_setName nm (.mk n fs ns es os me) flat fs
      simp only [setMsgName] at h
      cases me <;> simp [toD, readD, readItem, setMsgName, MsgP.mapEntry, MsgP.fields, MsgP.name, h]

/-! ### `read_protobuf_type` as written -/

/-- the class the parser constructs for field `f` of message `m`, by the MODEL's classification -/
def clsOf (pyd : Bool) (m : MsgP) (f : FieldP) : FieldCls :=
  if isMap f m then .MapEntryCompiler
  else if isOneof f then (if pyd then .PydanticOneOfFieldCompiler else .OneOfFieldCompiler)
  else .FieldCompiler

/-- one field compiler per field, at `path + [2, index]` (DescriptorProto.field = 2) -/
def fieldsLog (pyd : Bool) (c : MsgC) : Int → List FieldP → List Built
  | _, [] => []
  | i, f :: fs => .field (clsOf pyd c.proto_obj f) c f (c.path ++ [2, i]) :: fieldsLog pyd c (i + 1) fs

/-- what `read_protobuf_type(item, path)` constructs -/
def readLog (pyd : Bool) : DItem × List Int → List Built
  | (.enum e, p) => [.enum e p]
  | (.msg m, p) => if m.mapEntry then [] else .message ⟨m, p⟩ :: fieldsLog pyd ⟨m, p⟩ 0 m.fields

/-- the OutputTemplate with more constructed objects -/
def addBuilt (t : OutTpl) (bs : List Built) : OutTpl := { t with built := t.built ++ bs }

theorem addBuilt_nil (t : OutTpl) : addBuilt t [] = t := by simp [addBuilt]
theorem addBuilt_addBuilt (t : OutTpl) (a b : List Built) : addBuilt (addBuilt t a) b = addBuilt t (a ++ b) := by
  simp [addBuilt, List.append_assoc]

theorem make_one_of_eq (fuel : Nat) (t : OutTpl) (src : FileD) (c : MsgC) (f : FieldP) (p : List Int) :
    _make_one_of_field_compiler fuel t src c f p
      = .ok (addBuilt t [.field (if t.pydantic_dataclasses then .PydanticOneOfFieldCompiler else .OneOfFieldCompiler) c f p]) := rfl

theorem read_fields_loop (fuel : Nat) (m : MsgP) (path : List Int) (src : FileD) :
    ∀ (fs : List FieldP) (i : Int) (t : OutTpl),
    read_protobuf_type.loop1 fuel m path src ⟨m, path⟩ i fs t
      = .ok (addBuilt t (fieldsLog t.pydantic_dataclasses ⟨m, path⟩ i fs))
  | [], i, t => by simp [read_protobuf_type.loop1, fieldsLog, addBuilt_nil]
  | f :: fs, i, t => by
    simp only [read_protobuf_type.loop1, SrcTiePlugin.is_map_desc, SrcTiePlugin.is_oneof_eq, Res.bind, make_one_of_eq]
    by_cases h1 : isMap f m = true
    · simp only [h1, if_true, Res.bind]
      rw [show newFieldCompiler .MapEntryCompiler t ⟨m, path⟩ f (path ++ [2, i])
          = addBuilt t [.field .MapEntryCompiler ⟨m, path⟩ f (path ++ [2, i])] from rfl,
        read_fields_loop fuel m path src fs (i + 1), addBuilt_addBuilt]
      simp [fieldsLog, clsOf, h1, addBuilt]
    · simp only [h1, Bool.false_eq_true, if_false, Res.bind]
      by_cases h2 : isOneof f = true
      · simp only [h2, if_true, Res.bind]
        rw [read_fields_loop fuel m path src fs (i + 1), addBuilt_addBuilt]
        simp [fieldsLog, clsOf, h1, h2, addBuilt]
      · simp only [h2, Bool.false_eq_true, if_false, Res.bind]
        rw [show newFieldCompiler .FieldCompiler t ⟨m, path⟩ f (path ++ [2, i])
            = addBuilt t [.field .FieldCompiler ⟨m, path⟩ f (path ++ [2, i])] from rfl,
          read_fields_loop fuel m path src fs (i + 1), addBuilt_addBuilt]
        simp [fieldsLog, clsOf, h1, h2, addBuilt]

/-- **`read_protobuf_type` as written** never raises and appends exactly `readLog` -/
theorem read_protobuf_type_eq (fuel : Nat) (item : DItem) (path : List Int) (src : FileD) (t : OutTpl) :
    read_protobuf_type fuel item path src t = .ok (addBuilt t (readLog t.pydantic_dataclasses (item, path))) := by
  cases item with
  | enum e =>
    simp only [read_protobuf_type, Res.bind, readLog]
    rfl
  | msg m =>
    simp only [read_protobuf_type, Py.Plg.optionsMapEntry, readLog]
    by_cases hme : m.mapEntry = true
    · simp [hme, addBuilt_nil]
    · simp only [hme, Bool.false_eq_true, if_false, newMessageCompiler, dFields]
      rw [read_fields_loop]
      simp only [Res.bind]
      rw [show ({ t with built := t.built ++ [Built.message ⟨m, path⟩] } : OutTpl)
          = addBuilt t [.message ⟨m, path⟩] from rfl, addBuilt_addBuilt]
      rfl

/-! ### `read_protobuf_service` as written -/

/-- one method compiler per method, at `[6, index, 2, j]` (ServiceDescriptorProto.method = 2) -/
def methodsLog (c : SvcC) (index : Int) : Int → List MethodD → List Built
  | _, [] => []
  | j, m :: ms => .method c m [6, index, 2, j] :: methodsLog c index (j + 1) ms

/-- what `read_protobuf_service(service, index)` constructs (FileDescriptorProto.service = 6) -/
def svcLog (s : SvcD) (index : Int) : List Built :=
  .service ⟨s, [6, index]⟩ :: methodsLog ⟨s, [6, index]⟩ index 0 s.method

theorem read_methods_loop (fuel : Nat) (src : FileD) (index : Int) (c : SvcC) :
    ∀ (ms : List MethodD) (j : Int) (t : OutTpl),
    read_protobuf_service.loop1 fuel src index c j ms t = .ok (addBuilt t (methodsLog c index j ms))
  | [], j, t => by simp [read_protobuf_service.loop1, methodsLog, addBuilt_nil]
  | m :: ms, j, t => by
    simp only [read_protobuf_service.loop1]
    rw [show newServiceMethodCompiler t c m [6, index, 2, j] = addBuilt t [.method c m [6, index, 2, j]] from rfl,
      read_methods_loop fuel src index c ms (j + 1), addBuilt_addBuilt]
    rfl

/-- **`read_protobuf_service` as written** never raises and appends exactly `svcLog` -/
theorem read_protobuf_service_eq (fuel : Nat) (src : FileD) (s : SvcD) (index : Int) (t : OutTpl) :
    read_protobuf_service fuel src s index t = .ok (addBuilt t (svcLog s index)) := by
  simp only [read_protobuf_service, newServiceCompiler]
  rw [read_methods_loop]
  simp only [Res.bind]
  rw [show ({ t with built := t.built ++ [Built.service ⟨s, [6, index]⟩] } : OutTpl)
      = addBuilt t [.service ⟨s, [6, index]⟩] from rfl, addBuilt_addBuilt]
  rfl

/-! ### the classes a log stands for, against the model's `readItems` -/

/-- name and kind of the class a constructed object becomes (fields, services, methods: no class of the schema) -/
def builtKey : Built → Option (Name × TypeKind)
  | .message c => some (c.proto_obj.name, .message)
  | .enum e _ => some (e.name, .enum)
  | _ => none

theorem fieldsLog_keys (pyd : Bool) (c : MsgC) : ∀ (fs : List FieldP) (i : Int),
    (fieldsLog pyd c i fs).filterMap builtKey = []
  | [], _ => rfl
  | f :: fs, i => by
    simp only [fieldsLog, List.filterMap_cons, builtKey]
    exact fieldsLog_keys pyd c fs (i + 1)

/-- the message / enum constructions of one yielded item are exactly its `dKey` -/
theorem readLog_keys (pyd : Bool) (it : DItem) (p : List Int) :
    (readLog pyd (it, p)).filterMap builtKey = (dKey it).toList := by
  cases it with
  | enum e => rfl
  | msg m =>
    by_cases h : m.mapEntry = true
    · simp [readLog, dKey, h]
    · simp [readLog, dKey, h, builtKey, fieldsLog_keys]

end Bp.SrcTieParser
