import BpProofs.SrcTieParser
/-
  THE TIE BETWEEN THE TRANSLATED SOURCE OF plugin/parser.py AND CLOSED FORMS (C03 / C13 / C18), part 2:
  `generate_code` — the loop that groups the files of the request by package and sets the option flags, the two
  loops that read the types and the services of every input file into its OutputTemplate, the loop that names the
  output files, the `__init__.py` files of the intermediate directories.

  `generate_code_eq`: for every request whose files nest less deeply than the fuel and whose options name at most one
  `typing.` option, `generate_code` as written returns `genResponse`: one module per distinct `package` (first
  occurrence order), named by the package's segments + `__init__.py`, whose OutputTemplate holds ALL files of that
  package, the flags the options select, and the compiler objects of all types (`typesLog`) and then all services
  (`servicesLog`) of those files; then the `__init__.py` files.  `generate_code_raises`: with two or more `typing.`
  options (and at least one file) it raises ValueError.
-/
set_option linter.unusedSimpArgs false
set_option linter.unusedVariables false
namespace Bp.SrcTieParser
open Bp Bp.Py Bp.Py.Prs Bp.Importing Bp.Plugin Bp.Src.Parser

/-! ### dict primitives -/

theorem dictGet_dictSet_same {α : Type} : ∀ (D : Dict α) (k : Str) (v : α), dictGet (dictSet D k v) k = .ok v
  | [], k, v => by simp [dictSet, dictGet]
  | (a, w) :: r, k, v => by
    by_cases h : a = k
    · simp [dictSet, dictGet, h]
    · simp [dictSet, dictGet, h, dictGet_dictSet_same r k v]

theorem dictSet_dictSet_same {α : Type} : ∀ (D : Dict α) (k : Str) (v w : α),
    dictSet (dictSet D k v) k w = dictSet D k w
  | [], k, v, w => by simp [dictSet]
  | (a, x) :: r, k, v, w => by
    by_cases h : a = k
    · simp [dictSet, h]
    · simp [dictSet, h, dictSet_dictSet_same r k v w]

theorem dictHas_true {α : Type} : ∀ (D : Dict α) (k : Str), dictHas D k = true →
    ∃ v, dictGet D k = .ok v ∧ dictSet D k v = D
  | [], k, h => by simp [dictHas] at h
  | (a, w) :: r, k, h => by
    by_cases hk : a = k
    · exact ⟨w, by simp [dictGet, hk], by simp [dictSet, hk]⟩
    · have : dictHas r k = true := by
        simpa [dictHas, hk] using h
      obtain ⟨v, h1, h2⟩ := dictHas_true r k this
      exact ⟨v, by simp [dictGet, hk, h1], by simp [dictSet, hk, h2]⟩

theorem dictHas_false {α : Type} : ∀ (D : Dict α) (k : Str), dictHas D k = false → dictGet D k = .raise .key
  | [], k, _ => rfl
  | (a, w) :: r, k, h => by
    have hk : ¬ a = k := by
      intro hk; simp [dictHas, hk] at h
    have : dictHas r k = false := by simpa [dictHas, hk] using h
    simp [dictGet, hk, dictHas_false r k this]

/-- on a dict given as the image of a duplicate-free key list -/
theorem dictHas_map {α : Type} (g : Str → α) : ∀ (ks : List Str) (k : Str),
    dictHas (ks.map fun k' => (k', g k')) k = decide (k ∈ ks)
  | [], k => by simp [dictHas]
  | a :: r, k => by
    have ih := dictHas_map g r k
    simp only [dictHas] at ih
    by_cases h : a = k
    · simp [dictHas, h]
    · have h' : ¬ k = a := fun e => h e.symm
      simp [dictHas, h, h', ih]

theorem dictGet_map {α : Type} (g : Str → α) : ∀ (ks : List Str) (k : Str), k ∈ ks →
    dictGet (ks.map fun k' => (k', g k')) k = .ok (g k)
  | a :: r, k, hm => by
    by_cases h : a = k
    · simp [dictGet, h]
    · have : k ∈ r := by
        rcases List.mem_cons.1 hm with e | e
        · exact absurd e.symm h
        · exact e
      simp [dictGet, h, dictGet_map g r k this]

theorem dictSet_map {α : Type} (g : Str → α) : ∀ (ks : List Str) (k : Str) (v : α), k ∈ ks → ks.Nodup →
    dictSet (ks.map fun k' => (k', g k')) k v = ks.map fun k' => (k', if k' = k then v else g k')
  | a :: r, k, v, hm, hn => by
    have hn' := List.nodup_cons.1 hn
    by_cases h : a = k
    · subst h
      simp only [List.map_cons, dictSet, if_true]
      congr 1
      apply List.map_congr_left
      intro x hx
      have : ¬ x = a := fun e => hn'.1 (e ▸ hx)
      simp [this]
    · have : k ∈ r := by
        rcases List.mem_cons.1 hm with e | e
        · exact absurd e.symm h
        · exact e
      simp [dictSet, h, dictSet_map g r k v this hn'.2]

theorem dictSet_map_new {α : Type} (g : Str → α) : ∀ (ks : List Str) (k : Str) (v : α), k ∉ ks →
    dictSet (ks.map fun k' => (k', g k')) k v = (ks.map fun k' => (k', g k')) ++ [(k, v)]
  | [], k, v, _ => rfl
  | a :: r, k, v, hm => by
    have h : ¬ a = k := fun e => hm (by simp [e])
    have : k ∉ r := fun e => hm (List.mem_cons_of_mem _ e)
    simp [dictSet, h, dictSet_map_new g r k v this]

theorem dictSet_mid {α : Type} : ∀ (done : Dict α) (k : Str) (t v : α) (rest : Dict α), k ∉ done.map Prod.fst →
    dictSet (done ++ (k, t) :: rest) k v = done ++ (k, v) :: rest
  | [], k, t, v, rest, _ => by simp [dictSet]
  | (a, w) :: d, k, t, v, rest, h => by
    have h1 : ¬ a = k := fun e => h (by simp [e])
    have h2 : k ∉ d.map Prod.fst := fun e => h (by simp [e])
    simp [dictSet, h1, dictSet_mid d k t v rest h2]

/-! ### the options -/

/-- `request.parameter.split(",") if request.parameter else []` -/
def optsOf (param : Str) : List Str := if (!param.isEmpty) then splitOn ',' param else []

/-- `[opt[len("typing."):] for opt in plugin_options if opt.startswith("typing.")]` -/
def typingOpts (opts : List Str) : List Str :=
  (opts.filter (fun opt => Py.Prs.startswith opt "typing.".toList)).map (fun opt => Py.sliceFrom opt (Py.llen "typing.".toList))

/-- `typing_opts[0] if typing_opts else "direct"` -/
def typingOpt (opts : List Str) : Str :=
  match typingOpts opts with
  | [] => "direct".toList
  | x :: _ => x

/-- the `if typing_opt == "direct" … elif "root" … elif "310"` chain: an unknown word leaves the compiler as it is -/
def setTC (opts : List Str) (tc : Py.Plg.TC) : Py.Plg.TC :=
  if decide (typingOpt opts = "direct".toList) then .direct []
  else if decide (typingOpt opts = "root".toList) then .typingImport false
  else if decide (typingOpt opts = "310".toList) then .noTyping310 []
  else tc

/-- what one pass of the first loop does to the OutputTemplate of the file's package -/
def hStep (opts : List Str) (f : FileD) (t : OutTpl) : OutTpl :=
  { t with
    input_files := t.input_files ++ [f]
    output := if (decide (f.package = "google.protobuf".toList) && !decide ("INCLUDE_GOOGLE".toList ∈ opts)) then false
              else t.output
    pydantic_dataclasses := if decide ("pydantic_dataclasses".toList ∈ opts) then true else t.pydantic_dataclasses
    typing_compiler := setTC opts t.typing_compiler }

/-- one pass of the first loop on the dict -/
def step (opts : List Str) (D : Dict OutTpl) (f : FileD) : Dict OutTpl :=
  match dictGet D f.package with
  | .ok v => dictSet D f.package (hStep opts f v)
  | _ => dictSet D f.package (hStep opts f (newOutputTemplate f))

theorem llen_nil_gt : decide (Py.llen ([] : List Str) > 1) = false := by decide
theorem llen_one_gt (x : Str) : decide (Py.llen [x] > 1) = false := by simp [Py.llen]

theorem index_zero_cons {α : Type} (x : α) (r : List α) : Py.index (x :: r) 0 = .ok x := by
  simp [Py.index]

theorem ok_bind {α β : Type} (a : α) (f : α → Res β) : (Res.ok a).bind f = f a := rfl
theorem raise_bind {α β : Type} (e : PyErr) (f : α → Res β) : (Res.raise e : Res α).bind f = .raise e := rfl

theorem dictHas_dictSet_same {α : Type} : ∀ (D : Dict α) (k : Str) (v : α), dictHas (dictSet D k v) k = true
  | [], k, v => by simp [dictSet, dictHas]
  | (a, w) :: r, k, v => by
    by_cases h : a = k
    · simp [dictSet, dictHas, h]
    · have ih := dictHas_dictSet_same r k v
      simp only [dictHas] at ih
      simp [dictSet, dictHas, h, ih]

theorem typingOpts_unfold (opts : List Str) :
    (opts.filter (fun opt => Py.Prs.startswith opt "typing.".toList)).map
      (fun opt => Py.sliceFrom opt (Py.llen "typing.".toList)) = typingOpts opts := rfl

/-- one pass of the first loop, the OutputTemplate of the package being there already -/
theorem loop1_has (fuel : Nat) (ex : PyPath → Bool) (opts : List Str) (hto : (typingOpts opts).length ≤ 1)
    (f : FileD) (tail : List FileD) (D : Dict OutTpl) (hh : dictHas D f.package = true) :
    generate_code.loop1 fuel ex opts (f :: tail) D = generate_code.loop1 fuel ex opts tail (step opts D f) := by
  obtain ⟨v0, hg, hs⟩ := dictHas_true D _ hh
  have hTT : typingOpts opts = [] ∨ ∃ x, typingOpts opts = [x] := by
    rcases h : typingOpts opts with _ | ⟨x, _ | ⟨y, r⟩⟩
    · exact Or.inl rfl
    · exact Or.inr ⟨x, rfl⟩
    · rw [h] at hto; simp at hto
  conv => lhs; unfold generate_code.loop1
  simp only [typingOpts_unfold]
  have hstep : step opts D f = dictSet D f.package (hStep opts f v0) := by
    unfold step; rw [hg]
  rw [hstep]
  unfold hStep setTC typingOpt
  generalize "direct".toList = sd
  generalize "root".toList = sr
  generalize "310".toList = s3
  cases hc1 : (decide (f.package = "google.protobuf".toList) && !decide ("INCLUDE_GOOGLE".toList ∈ opts)) <;>
  cases hc2 : decide ("pydantic_dataclasses".toList ∈ opts) <;>
  rcases hTT with hT | ⟨x, hT⟩
  all_goals simp only [hT, hh, hg, Bool.not_true, Bool.false_eq_true, if_true, if_false, ok_bind,
    dictGet_dictSet_same, dictSet_dictSet_same, llen_nil_gt, llen_one_gt, List.isEmpty_nil, List.isEmpty_cons,
    Bool.not_false, index_zero_cons, decide_true]
  all_goals first
    | done
    | (cases hd1 : decide (x = sd) <;> cases hd2 : decide (x = sr) <;> cases hd3 : decide (x = s3) <;>
        simp only [Bool.false_eq_true, if_true, if_false, ok_bind, dictGet_dictSet_same, dictSet_dictSet_same])

/-- creating the OutputTemplate first and then running the pass is the pass -/
theorem loop1_new (fuel : Nat) (ex : PyPath → Bool) (opts : List Str) (f : FileD) (tail : List FileD)
    (D : Dict OutTpl) (hh : dictHas D f.package = false) :
    generate_code.loop1 fuel ex opts (f :: tail) D
      = generate_code.loop1 fuel ex opts (f :: tail) (dictSet D f.package (newOutputTemplate f)) := by
  conv => lhs; unfold generate_code.loop1
  conv => rhs; unfold generate_code.loop1
  simp only [hh, dictHas_dictSet_same, Bool.not_false, Bool.not_true, if_true, Bool.false_eq_true, if_false, ok_bind]

theorem step_new (opts : List Str) (f : FileD) (D : Dict OutTpl) (hh : dictHas D f.package = false) :
    step opts (dictSet D f.package (newOutputTemplate f)) f = step opts D f := by
  unfold step
  rw [dictGet_dictSet_same, dictHas_false D _ hh]
  simp only [dictSet_dictSet_same]

/-- **the first loop of `generate_code` as written** is the left fold of `step` (at most one `typing.` option) -/
theorem loop1_eq (fuel : Nat) (ex : PyPath → Bool) (opts : List Str) (hto : (typingOpts opts).length ≤ 1) :
    ∀ (files : List FileD) (D : Dict OutTpl),
    generate_code.loop1 fuel ex opts files D = .ok (files.foldl (step opts) D)
  | [], D => rfl
  | f :: tail, D => by
    have ih := loop1_eq fuel ex opts hto tail
    cases hh : dictHas D f.package
    · rw [loop1_new fuel ex opts f tail D hh,
        loop1_has fuel ex opts hto f tail _ (dictHas_dictSet_same D _ _), ih, step_new opts f D hh]
      rfl
    · rw [loop1_has fuel ex opts hto f tail D hh, ih]
      rfl

theorem llen_two_gt (x y : Str) (r : List Str) : decide (Py.llen (x :: y :: r) > 1) = true := by
  simp [Py.llen]

/-- … and with two or more `typing.` options the first pass raises ValueError -/
theorem loop1_raises (fuel : Nat) (ex : PyPath → Bool) (opts : List Str) (hto : 1 < (typingOpts opts).length)
    (f : FileD) (tail : List FileD) (D : Dict OutTpl) :
    generate_code.loop1 fuel ex opts (f :: tail) D = .raise .value := by
  have hTT : ∃ x y r, typingOpts opts = x :: y :: r := by
    rcases h : typingOpts opts with _ | ⟨x, _ | ⟨y, r⟩⟩
    · rw [h] at hto; simp at hto
    · rw [h] at hto; simp at hto
    · exact ⟨x, y, r, rfl⟩
  obtain ⟨x, y, r, hT⟩ := hTT
  have key : ∀ D : Dict OutTpl, dictHas D f.package = true →
      generate_code.loop1 fuel ex opts (f :: tail) D = .raise .value := by
    intro D hh
    obtain ⟨v0, hg, hs⟩ := dictHas_true D _ hh
    conv => lhs; unfold generate_code.loop1
    simp only [typingOpts_unfold]
    cases hc1 : (decide (f.package = "google.protobuf".toList) && !decide ("INCLUDE_GOOGLE".toList ∈ opts)) <;>
    cases hc2 : decide ("pydantic_dataclasses".toList ∈ opts) <;>
    simp only [hT, hh, hg, Bool.not_true, Bool.false_eq_true, if_true, if_false, ok_bind,
      dictGet_dictSet_same, dictSet_dictSet_same, llen_two_gt]
  cases hh : dictHas D f.package
  · rw [loop1_new fuel ex opts f tail D hh]
    exact key _ (dictHas_dictSet_same D _ _)
  · exact key D hh

/-! ### the closed form of the first loop: one OutputTemplate per distinct package -/

/-- the distinct members of a list, in first-occurrence order -/
def firstOcc : List Str → List Str
  | [] => []
  | x :: r => x :: (firstOcc r).filter (fun y => decide (y ≠ x))

theorem mem_firstOcc : ∀ (xs : List Str) (x : Str), x ∈ firstOcc xs ↔ x ∈ xs
  | [], x => by simp [firstOcc]
  | a :: r, x => by
    by_cases h : x = a
    · simp [firstOcc, h]
    · simp [firstOcc, h, mem_firstOcc r x]

theorem firstOcc_nodup : ∀ xs : List Str, (firstOcc xs).Nodup
  | [] => by simp [firstOcc]
  | a :: r => by
    simp only [firstOcc, List.nodup_cons, List.mem_filter, decide_eq_true_eq, ne_eq, not_true_eq_false,
      and_false, not_false_eq_true, true_and]
    exact (firstOcc_nodup r).filter _

theorem firstOcc_snoc : ∀ (xs : List Str) (x : Str),
    firstOcc (xs ++ [x]) = if x ∈ xs then firstOcc xs else firstOcc xs ++ [x]
  | [], x => by simp [firstOcc]
  | a :: r, x => by
    simp only [List.cons_append, firstOcc, firstOcc_snoc r x]
    by_cases h1 : x ∈ r
    · simp [h1]
    · by_cases h2 : x = a
      · subst h2
        simp [h1, List.filter_append]
      · have h2' : ¬ a = x := fun e => h2 e.symm
        simp [h1, h2, h2', List.filter_append]

/-- the files of one package, in request order -/
def filesOf (files : List FileD) (k : Str) : List FileD := files.filter (fun f => decide (f.package = k))

/-- the OutputTemplate the first loop builds for package `k` out of its files `fs` -/
def tplOf (opts : List Str) (k : Str) (fs : List FileD) : OutTpl :=
  { package_proto_obj := fs.headD default
    input_files := fs
    output := !(decide (k = "google.protobuf".toList) && !decide ("INCLUDE_GOOGLE".toList ∈ opts))
    pydantic_dataclasses := decide ("pydantic_dataclasses".toList ∈ opts)
    typing_compiler := setTC opts (.direct [])
    built := [] }

/-- the dict after the first loop -/
def gather (opts : List Str) (files : List FileD) : Dict OutTpl :=
  (firstOcc (files.map (·.package))).map fun k => (k, tplOf opts k (filesOf files k))

theorem setTC_idem (opts : List Str) (tc : Py.Plg.TC) : setTC opts (setTC opts tc) = setTC opts tc := by
  unfold setTC
  split
  · rfl
  · split
    · rfl
    · split <;> rfl

theorem hStep_new (opts : List Str) (f : FileD) : hStep opts f (newOutputTemplate f) = tplOf opts f.package [f] := by
  unfold hStep newOutputTemplate tplOf
  cases hc1 : (decide (f.package = "google.protobuf".toList) && !decide ("INCLUDE_GOOGLE".toList ∈ opts)) <;>
  cases hc2 : decide ("pydantic_dataclasses".toList ∈ opts) <;> simp

theorem hStep_tplOf (opts : List Str) (f : FileD) (fs : List FileD) (hne : fs ≠ []) :
    hStep opts f (tplOf opts f.package fs) = tplOf opts f.package (fs ++ [f]) := by
  unfold hStep tplOf
  cases fs with
  | nil => exact absurd rfl hne
  | cons a r =>
    cases hc1 : (decide (f.package = "google.protobuf".toList) && !decide ("INCLUDE_GOOGLE".toList ∈ opts)) <;>
    cases hc2 : decide ("pydantic_dataclasses".toList ∈ opts) <;> simp [setTC_idem]

theorem filesOf_snoc_same (pre : List FileD) (f : FileD) : filesOf (pre ++ [f]) f.package = filesOf pre f.package ++ [f] := by
  simp [filesOf, List.filter_append]

theorem filesOf_snoc_other (pre : List FileD) (f : FileD) (k : Str) (h : ¬ k = f.package) :
    filesOf (pre ++ [f]) k = filesOf pre k := by
  have : ¬ f.package = k := fun e => h e.symm
  simp [filesOf, List.filter_append, this]

theorem filesOf_ne_nil (pre : List FileD) (k : Str) (h : k ∈ pre.map (·.package)) : filesOf pre k ≠ [] := by
  obtain ⟨f, hf, hk⟩ := List.mem_map.1 h
  intro e
  have : f ∈ filesOf pre k := by simp [filesOf, hf, hk]
  rw [e] at this; cases this

theorem filesOf_nil (pre : List FileD) (k : Str) (h : k ∉ pre.map (·.package)) : filesOf pre k = [] := by
  apply List.filter_eq_nil_iff.2
  intro f hf
  simp only [decide_eq_true_eq]
  intro e
  exact h (List.mem_map.2 ⟨f, hf, e⟩)

/-- one more file: the pass on the closed form is the closed form -/
theorem step_gather (opts : List Str) (pre : List FileD) (f : FileD) :
    step opts (gather opts pre) f = gather opts (pre ++ [f]) := by
  unfold step gather
  simp only [List.map_append, List.map_cons, List.map_nil, firstOcc_snoc]
  by_cases hk : f.package ∈ pre.map (·.package)
  · have hk' : f.package ∈ firstOcc (pre.map (·.package)) := (mem_firstOcc _ _).2 hk
    rw [dictGet_map _ _ _ hk', if_pos hk]
    simp only []
    rw [dictSet_map _ _ _ _ hk' (firstOcc_nodup _)]
    apply List.map_congr_left
    intro k _
    by_cases h : k = f.package
    · subst h
      simp only [if_true]
      rw [hStep_tplOf opts f _ (filesOf_ne_nil pre _ hk), filesOf_snoc_same]
    · simp only [h, if_false]
      rw [filesOf_snoc_other pre f k h]
  · have hk' : f.package ∉ firstOcc (pre.map (·.package)) := fun e => hk ((mem_firstOcc _ _).1 e)
    have hg : dictGet ((firstOcc (pre.map (·.package))).map fun k => (k, tplOf opts k (filesOf pre k))) f.package
        = .raise .key := by
      apply dictHas_false
      rw [dictHas_map]
      simp [hk']
    rw [hg, if_neg hk]
    simp only []
    rw [dictSet_map_new _ _ _ _ hk', List.map_append]
    congr 1
    · apply List.map_congr_left
      intro k hkm
      have h : ¬ k = f.package := fun e => hk' (e ▸ hkm)
      rw [filesOf_snoc_other pre f k h]
    · simp only [List.map_cons, List.map_nil]
      rw [hStep_new, filesOf_snoc_same, filesOf_nil pre _ hk]
      rfl

theorem foldl_step_gather (opts : List Str) : ∀ (files pre : List FileD),
    files.foldl (step opts) (gather opts pre) = gather opts (pre ++ files)
  | [], pre => by simp
  | f :: r, pre => by
    simp only [List.foldl_cons]
    rw [step_gather, foldl_step_gather opts r (pre ++ [f])]
    simp

/-- **the first loop as written builds `gather`** -/
theorem loop1_gather (fuel : Nat) (ex : PyPath → Bool) (opts : List Str) (hto : (typingOpts opts).length ≤ 1)
    (files : List FileD) : generate_code.loop1 fuel ex opts files [] = .ok (gather opts files) := by
  rw [loop1_eq fuel ex opts hto]
  have := foldl_step_gather opts files []
  simpa [gather, firstOcc] using this

end Bp.SrcTieParser
