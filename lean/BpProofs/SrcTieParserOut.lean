import BpProofs.SrcTieParserGen
/-
  THE TIE BETWEEN THE TRANSLATED SOURCE OF plugin/parser.py AND CLOSED FORMS, part 3: the loops of `generate_code`
  that read the types and the services of every input file into the OutputTemplate of its package, the loop that
  names the output files, the `__init__.py` files, and `generate_code` as a whole (`generate_code_eq`).
-/
set_option linter.unusedSimpArgs false
set_option linter.unusedVariables false
namespace Bp.SrcTieParser
open Bp Bp.Py Bp.Py.Prs Bp.Importing Bp.Plugin Bp.Src.Parser

/-! ### reading the types and the services of the input files -/

/-- the compiler objects constructed for the types of one file: every yielded item through `read_protobuf_type` -/
def typesLog (pyd : Bool) (fd : FileD) : List Built := (pFile fd).flatMap (readLog pyd)

/-- the second loop on one OutputTemplate -/
def addTypes (t : OutTpl) : OutTpl := addBuilt t (t.input_files.flatMap (typesLog t.pydantic_dataclasses))

/-- the compiler objects constructed for a list of services, counting from `i` -/
def svcsLog : Int → List SvcD → List Built
  | _, [] => []
  | i, s :: r => svcLog s i ++ svcsLog (i + 1) r

def servicesLog (fd : FileD) : List Built := svcsLog 0 fd.services

/-- the third loop on one OutputTemplate -/
def addServices (t : OutTpl) : OutTpl := addBuilt t (t.input_files.flatMap servicesLog)

theorem loop4_eq (fuel : Nat) (ex : PyPath → Bool) (src : FileD) : ∀ (items : List (DItem × List Int)) (t : OutTpl),
    generate_code.loop4 fuel ex src items t = .ok (addBuilt t (items.flatMap (readLog t.pydantic_dataclasses)))
  | [], t => by simp [generate_code.loop4, addBuilt_nil]
  | (item, path) :: r, t => by
    simp only [generate_code.loop4, read_protobuf_type_eq, ok_bind]
    rw [loop4_eq fuel ex src r, addBuilt_addBuilt]
    rfl

theorem loop3_eq (fuel : Nat) (ex : PyPath → Bool) : ∀ (files : List FileD) (t : OutTpl),
    (∀ f ∈ files, depthMsgs f.messages < fuel) →
    generate_code.loop3 fuel ex files t = .ok (addBuilt t (files.flatMap (typesLog t.pydantic_dataclasses)))
  | [], t, _ => by simp [generate_code.loop3, addBuilt_nil]
  | f :: r, t, h => by
    simp only [generate_code.loop3, traverse_eq fuel f (h f List.mem_cons_self), ok_bind, loop4_eq]
    rw [loop3_eq fuel ex r _ (fun g hg => h g (List.mem_cons_of_mem _ hg)), addBuilt_addBuilt]
    rfl

theorem loop7_eq (fuel : Nat) (ex : PyPath → Bool) (src : FileD) : ∀ (svcs : List SvcD) (i : Int) (t : OutTpl),
    generate_code.loop7 fuel ex src i svcs t = .ok (addBuilt t (svcsLog i svcs))
  | [], i, t => by simp [generate_code.loop7, svcsLog, addBuilt_nil]
  | s :: r, i, t => by
    simp only [generate_code.loop7, read_protobuf_service_eq, ok_bind]
    rw [loop7_eq fuel ex src r (i + 1), addBuilt_addBuilt]
    rfl

theorem loop6_eq (fuel : Nat) (ex : PyPath → Bool) : ∀ (files : List FileD) (t : OutTpl),
    generate_code.loop6 fuel ex files t = .ok (addBuilt t (files.flatMap servicesLog))
  | [], t => by simp [generate_code.loop6, addBuilt_nil]
  | f :: r, t => by
    simp only [generate_code.loop6, loop7_eq, ok_bind]
    rw [loop6_eq fuel ex r, addBuilt_addBuilt]
    rfl

/-- a loop over the items of a dict that changes the value object and stores it back: the values mapped -/
theorem writeback_loop (loop : List (Str × OutTpl) → Dict OutTpl → Res (Dict OutTpl)) (inner : OutTpl → Res OutTpl)
    (g : OutTpl → OutTpl) (hnil : ∀ D, loop [] D = .ok D)
    (hcons : ∀ k t r D, loop ((k, t) :: r) D = (inner t).bind fun t' => loop r (dictSet D k t')) :
    ∀ (todo done : Dict OutTpl), ((done ++ todo).map Prod.fst).Nodup → (∀ p ∈ todo, inner p.2 = .ok (g p.2)) →
      loop todo (done ++ todo) = .ok (done ++ todo.map fun p => (p.1, g p.2))
  | [], done, _, _ => by simp [hnil]
  | (k, t) :: r, done, hn, hi => by
    have hk : k ∉ done.map Prod.fst := by
      intro e
      rw [List.map_append, List.nodup_append] at hn
      exact hn.2.2 k e k (by simp) rfl
    rw [hcons, hi (k, t) List.mem_cons_self, ok_bind, dictSet_mid done k t (g t) r hk]
    have := writeback_loop loop inner g hnil hcons r (done ++ [(k, g t)])
      (by simpa [List.map_append] using hn) (fun p hp => hi p (List.mem_cons_of_mem _ hp))
    simpa [List.append_assoc] using this

theorem loop2_eq (fuel : Nat) (ex : PyPath → Bool) (D : Dict OutTpl) (hn : (D.map Prod.fst).Nodup)
    (hd : ∀ p ∈ D, ∀ f ∈ p.2.input_files, depthMsgs f.messages < fuel) :
    generate_code.loop2 fuel ex D D = .ok (D.map fun p => (p.1, addTypes p.2)) := by
  have := writeback_loop (generate_code.loop2 fuel ex) (fun t => generate_code.loop3 fuel ex t.input_files t) addTypes
    (fun D => rfl) (fun k t r D => rfl) D [] (by simpa using hn)
    (fun p hp => loop3_eq fuel ex _ _ (hd p hp))
  simpa using this

theorem loop5_eq (fuel : Nat) (ex : PyPath → Bool) (D : Dict OutTpl) (hn : (D.map Prod.fst).Nodup) :
    generate_code.loop5 fuel ex D D = .ok (D.map fun p => (p.1, addServices p.2)) := by
  have := writeback_loop (generate_code.loop5 fuel ex) (fun t => generate_code.loop6 fuel ex t.input_files t) addServices
    (fun D => rfl) (fun k t r D => rfl) D [] (by simpa using hn)
    (fun p hp => loop6_eq fuel ex _ _)
  simpa using this

/-! ### naming the output files -/

/-- `pathlib.Path(*package.split("."), "__init__.py")` -/
def pkgPath (k : Str) : PyPath := pathNew (splitOn '.' k ++ ["__init__.py".toList])

/-- the response file of one output package -/
def moduleFile (p : Str × OutTpl) : RFile := { name := pathStr (pkgPath p.1), content := some p.2 }

theorem loop8_eq (fuel : Nat) (ex : PyPath → Bool) : ∀ (D : List (Str × OutTpl)) (resp : Response) (paths : List PyPath),
    generate_code.loop8 fuel ex D (resp, paths)
      = .ok ({ resp with file := resp.file ++ (D.filter (·.2.output)).map moduleFile },
             ((D.filter (·.2.output)).map (pkgPath ·.1)).foldl setAdd paths)
  | [], resp, paths => by simp [generate_code.loop8]
  | (k, t) :: r, resp, paths => by
    simp only [generate_code.loop8]
    cases h : t.output
    · simp only [Bool.not_false, if_true, loop8_eq fuel ex r, List.filter_cons, h, Bool.false_eq_true, if_false]
    · simp only [Bool.not_true, Bool.false_eq_true, if_false, loop8_eq fuel ex r, List.filter_cons, h, if_true,
        List.map_cons, List.foldl_cons, List.append_assoc, List.singleton_append]
      rfl

/-- the response file of one `__init__.py` -/
def initFile (p : PyPath) : RFile := { name := pathStr p, content := none }

theorem loop9_eq (fuel : Nat) (ex : PyPath → Bool) : ∀ (ps : List PyPath) (resp : Response),
    generate_code.loop9 fuel ex ps resp = .ok { resp with file := resp.file ++ ps.map initFile }
  | [], resp => by simp [generate_code.loop9]
  | p :: r, resp => by
    simp only [generate_code.loop9, loop9_eq fuel ex r, List.map_cons, List.append_assoc, List.singleton_append]
    rfl

/-- the `__init__.py` files of the directories above the output files that do not exist yet and are no output file -/
def initFiles (ex : PyPath → Bool) (paths : List PyPath) : List PyPath :=
  setDiff (setOfList (paths.flatMap fun path =>
    ((pathParents path).filter (fun directory => !(ex (pathJoin directory "__init__.py".toList)))).map
      (fun directory => pathJoin directory "__init__.py".toList))) paths

/-! ### `generate_code` as a whole -/

/-- the dict of output packages after the three loops -/
def genModules (opts : List Str) (files : List FileD) : Dict OutTpl :=
  ((gather opts files).map fun p => (p.1, addTypes p.2)).map fun p => (p.1, addServices p.2)

/-- the output packages that are written (`output` is False for google.protobuf without INCLUDE_GOOGLE) -/
def genOutputs (opts : List Str) (files : List FileD) : Dict OutTpl := (genModules opts files).filter (·.2.output)

/-- the set of the paths of the output files -/
def genPaths (opts : List Str) (files : List FileD) : List PyPath :=
  ((genOutputs opts files).map (pkgPath ·.1)).foldl setAdd []

/-- the CodeGeneratorResponse -/
def genResponse (ex : PyPath → Bool) (req : Request) : Response :=
  { supported_features := some "FEATURE_PROTO3_OPTIONAL".toList
    file := (genOutputs (optsOf req.parameter) req.proto_file).map moduleFile
              ++ (initFiles ex (genPaths (optsOf req.parameter) req.proto_file)).map initFile }

theorem gather_keys (opts : List Str) (files : List FileD) :
    (gather opts files).map Prod.fst = firstOcc (files.map (·.package)) := by
  simp [gather, List.map_map, Function.comp_def]

theorem gather_input_files (opts : List Str) (files : List FileD) :
    ∀ p ∈ gather opts files, p.2.input_files = filesOf files p.1 := by
  intro p hp
  obtain ⟨k, _, rfl⟩ := List.mem_map.1 hp
  rfl

/-- **`generate_code` as written** returns `genResponse` (fuel above the nesting depth of every file, at most one
    `typing.` option) -/
theorem generate_code_eq (fuel : Nat) (ex : PyPath → Bool) (req : Request)
    (hfuel : ∀ f ∈ req.proto_file, depthMsgs f.messages < fuel)
    (hto : (typingOpts (optsOf req.parameter)).length ≤ 1) :
    generate_code fuel ex req = .ok (genResponse ex req) := by
  unfold generate_code
  have hopts : (if (!req.parameter.isEmpty) then splitOn ',' req.parameter else ([] : List Str)) = optsOf req.parameter := rfl
  simp only [hopts]
  rw [loop1_gather fuel ex _ hto]
  simp only [ok_bind]
  have hn1 : ((gather (optsOf req.parameter) req.proto_file).map Prod.fst).Nodup := by
    rw [gather_keys]; exact firstOcc_nodup _
  rw [loop2_eq fuel ex _ hn1 (by
    intro p hp f hf
    rw [gather_input_files _ _ p hp] at hf
    exact hfuel f (List.mem_filter.1 hf).1)]
  simp only [ok_bind]
  rw [loop5_eq fuel ex _ (by simpa [List.map_map, Function.comp_def] using hn1)]
  simp only [ok_bind, loop8_eq, loop9_eq]
  rfl

/-- … and with two or more `typing.` options it raises ValueError (when there is a file at all) -/
theorem generate_code_raises (fuel : Nat) (ex : PyPath → Bool) (req : Request) (hne : req.proto_file ≠ [])
    (hto : 1 < (typingOpts (optsOf req.parameter)).length) :
    generate_code fuel ex req = .raise .value := by
  unfold generate_code
  have hopts : (if (!req.parameter.isEmpty) then splitOn ',' req.parameter else ([] : List Str)) = optsOf req.parameter := rfl
  simp only [hopts]
  cases hf : req.proto_file with
  | nil => exact absurd hf hne
  | cons f r => rw [loop1_raises fuel ex _ hto]; rfl

/-! ### the classes of a module against the model's `compilePackage` and the schema's `allTypes` -/

/-- the message / enum compiler objects constructed for one file are, in order, exactly the types of the file
    (`allTypes`: every message — synthetic map entries excepted — and enum at every nesting depth), each once,
    under its flattened name -/
theorem typesLog_keys (pyd : Bool) (fd : FileD) :
    (typesLog pyd fd).filterMap builtKey = (allTypes (toFileP fd)).map typeKey := by
  have h1 : ∀ ys : List (DItem × List Int),
      (ys.flatMap (readLog pyd)).filterMap builtKey = (ys.map Prod.fst).filterMap dKey := by
    intro ys
    induction ys with
    | nil => rfl
    | cons y r ih =>
      obtain ⟨it, p⟩ := y
      simp only [List.flatMap_cons, List.filterMap_append, readLog_keys, ih, List.map_cons, List.filterMap_cons]
      cases dKey it <;> simp
  unfold typesLog
  rw [h1, pFile_fst, ← traverse_key, List.filterMap_map]
  congr 1
  funext it
  exact dKey_toD it

theorem svcsLog_keys : ∀ (svcs : List SvcD) (i : Int), (svcsLog i svcs).filterMap builtKey = []
  | [], _ => rfl
  | s :: r, i => by
    have hm : ∀ (c : SvcC) (ms : List MethodD) (j : Int), (methodsLog c i j ms).filterMap builtKey = [] := by
      intro c ms
      induction ms with
      | nil => intro j; rfl
      | cons m r ih => intro j; simp only [methodsLog, List.filterMap_cons, builtKey]; exact ih (j + 1)
    simp only [svcsLog, svcLog, List.filterMap_append, List.filterMap_cons, builtKey, hm, svcsLog_keys r (i + 1)]
    rfl

theorem flatMap_filterMap_nil {α : Type} (f : α → List Built) (xs : List α)
    (h : ∀ x, (f x).filterMap builtKey = []) : (xs.flatMap f).filterMap builtKey = [] := by
  induction xs with
  | nil => rfl
  | cons x r ih => simp [List.flatMap_cons, List.filterMap_append, h, ih]

/-- the model's class list of a package: names and kinds -/
theorem compilePackage_keys (nm : Naming) : ∀ (fls : List FileP) (cs : List Class), compilePackage nm fls = some cs →
    cs.map (fun c => (c.pyName, c.kind)) = fls.flatMap fun fl => (allTypes fl).map fun t => (nm.cls (flatName t.1), t.2)
  | [], cs, h => by simp [compilePackage] at h; subst h; rfl
  | fl :: r, cs, h => by
    unfold compilePackage at h
    cases h1 : compileFile nm fl with
    | none => simp [h1] at h
    | some a =>
      cases h2 : compilePackage nm r with
      | none => simp [h1, h2] at h
      | some b =>
        simp only [h1, h2, Option.some.injEq] at h
        subst h
        have ha : a.map (fun c => (c.pyName, c.kind)) = (allTypes fl).map fun t => (nm.cls (flatName t.1), t.2) := by
          unfold compileFile at h1
          rw [readItems_keys nm _ a h1, traverse_key, List.map_map]
          rfl
        rw [List.map_append, ha, compilePackage_keys nm r b h2, List.flatMap_cons]

/-! ### the module of one package -/

/-- the OutputTemplate of package `k` when `generate_code` renders it -/
def moduleOf (opts : List Str) (files : List FileD) (k : Str) : OutTpl :=
  addServices (addTypes (tplOf opts k (filesOf files k)))

theorem genModules_eq (opts : List Str) (files : List FileD) :
    genModules opts files = (firstOcc (files.map (·.package))).map fun k => (k, moduleOf opts files k) := by
  simp [genModules, gather, List.map_map, Function.comp_def, moduleOf]

theorem moduleOf_built (opts : List Str) (files : List FileD) (k : Str) :
    (moduleOf opts files k).built
      = (filesOf files k).flatMap (typesLog (decide ("pydantic_dataclasses".toList ∈ opts)))
        ++ (filesOf files k).flatMap servicesLog := by
  simp [moduleOf, addServices, addTypes, addBuilt, tplOf]

/-! ### output paths -/

theorem splitOn_mem_no_sep (c : Char) : ∀ (s : Str) (w : Str), w ∈ splitOn c s → c ∉ w
  | [], w, h => by
    simp only [splitOn, List.mem_singleton] at h
    subst h; simp
  | a :: s, w, h => by
    unfold splitOn at h
    by_cases hc : a = c
    · simp only [hc, if_true, List.mem_cons] at h
      rcases h with h | h
      · subst h; simp
      · exact splitOn_mem_no_sep c s w h
    · simp only [hc, if_false] at h
      cases hs : splitOn c s with
      | nil => exact absurd hs (SrcTiePlugin.splitOn_ne_nil c s)
      | cons w' ws =>
        rw [hs] at h
        simp only [List.mem_cons] at h
        rcases h with h | h
        · subst h
          have := splitOn_mem_no_sep c s w' (by rw [hs]; simp)
          intro hm
          rcases List.mem_cons.1 hm with e | e
          · exact hc e.symm
          · exact this e
        · exact splitOn_mem_no_sep c s w (by rw [hs]; simp [h])

theorem joinWith_splitOn (c : Char) : ∀ s : Str, joinWith c (splitOn c s) = s
  | [] => rfl
  | a :: s => by
    have ih := joinWith_splitOn c s
    unfold splitOn
    cases hs : splitOn c s with
    | nil => exact absurd hs (SrcTiePlugin.splitOn_ne_nil c s)
    | cons w ws =>
      rw [hs] at ih
      by_cases hc : a = c
      · simp only [hc, if_true]
        show joinWith c ([] :: w :: ws) = c :: s
        simp only [joinWith, List.nil_append, ih]
      · simp only [hc, if_false]
        cases ws with
        | nil => simp only [joinWith] at ih ⊢; rw [ih]
        | cons w2 r => simp only [joinWith, List.cons_append] at ih ⊢; rw [ih]

/-- what protoc guarantees of a package name: empty, or dot-separated non-empty segments -/
def validPkg (k : Str) : Bool := k.isEmpty || (splitOn '.' k).all (fun s => !s.isEmpty)

/-- the path of the module of a package protoc accepts: its segments, then `__init__.py` -/
theorem pkgPath_valid (k : Str) (h : validPkg k = true) :
    pkgPath k = (if k.isEmpty then [] else splitOn '.' k) ++ ["__init__.py".toList] := by
  unfold pkgPath pathNew
  by_cases he : k.isEmpty = true
  · have : k = [] := List.isEmpty_iff.1 he
    subst this
    decide
  · simp only [he, Bool.false_eq_true, if_false]
    have hv : ∀ s ∈ splitOn '.' k, s.isEmpty = false := by
      intro s hs
      have := h
      simp only [validPkg, he, Bool.false_or, List.all_eq_true, Bool.not_eq_true'] at this
      exact this s hs
    rw [List.filter_append]
    congr 1
    apply List.filter_eq_self.2
    intro s hs
    have h1 := hv s hs
    have h2 : ¬ s = ['.'] := by
      intro e
      exact splitOn_mem_no_sep '.' k s hs (by rw [e]; decide)
    simp [h1, h2]

/-- distinct packages get distinct module paths -/
theorem pkgPath_injective (k1 k2 : Str) (h1 : validPkg k1 = true) (h2 : validPkg k2 = true)
    (h : pkgPath k1 = pkgPath k2) : k1 = k2 := by
  rw [pkgPath_valid k1 h1, pkgPath_valid k2 h2] at h
  have h' := List.append_cancel_right h
  by_cases e1 : k1.isEmpty = true <;> by_cases e2 : k2.isEmpty = true
  · rw [List.isEmpty_iff.1 e1, List.isEmpty_iff.1 e2]
  · simp only [e1, e2, if_true, Bool.false_eq_true, if_false] at h'
    exact absurd h'.symm (SrcTiePlugin.splitOn_ne_nil '.' k2)
  · simp only [e1, e2, if_true, Bool.false_eq_true, if_false] at h'
    exact absurd h' (SrcTiePlugin.splitOn_ne_nil '.' k1)
  · simp only [e1, e2, Bool.false_eq_true, if_false] at h'
    rw [← joinWith_splitOn '.' k1, ← joinWith_splitOn '.' k2, h']

/-! ### sets of paths -/

theorem mem_foldl_setAdd {α : Type} [DecidableEq α] (x : α) : ∀ (xs acc : List α),
    x ∈ xs.foldl setAdd acc ↔ x ∈ acc ∨ x ∈ xs
  | [], acc => by simp
  | a :: r, acc => by
    rw [List.foldl_cons, mem_foldl_setAdd x r]
    unfold setAdd
    by_cases h : a ∈ acc
    · simp only [h, if_true, List.mem_cons]
      constructor
      · rintro (h1 | h1)
        · exact Or.inl h1
        · exact Or.inr (Or.inr h1)
      · rintro (h1 | h1 | h1)
        · exact Or.inl h1
        · exact Or.inl (h1 ▸ h)
        · exact Or.inr h1
    · simp only [h, if_false, List.mem_append, List.mem_singleton, List.mem_cons]
      tauto

theorem mem_setOfList {α : Type} [DecidableEq α] (x : α) (xs : List α) : x ∈ setOfList xs ↔ x ∈ xs := by
  simp [setOfList, mem_foldl_setAdd]

theorem mem_setDiff {α : Type} [DecidableEq α] (x : α) (a b : List α) : x ∈ setDiff a b ↔ x ∈ a ∧ x ∉ b := by
  simp [setDiff]

/-- which `__init__.py` files are added: those of the directories above an output file that do not exist under
    the plugin's working directory and are not output files themselves -/
theorem mem_initFiles (ex : PyPath → Bool) (paths : List PyPath) (p : PyPath) :
    p ∈ initFiles ex paths ↔
      (∃ path ∈ paths, ∃ d ∈ pathParents path, p = pathJoin d "__init__.py".toList ∧ ex p = false) ∧ p ∉ paths := by
  unfold initFiles
  rw [mem_setDiff, mem_setOfList]
  simp only [List.mem_flatMap, List.mem_map, List.mem_filter, Bool.not_eq_true']
  constructor
  · rintro ⟨⟨path, hp, d, ⟨hd, he⟩, rfl⟩, hn⟩
    exact ⟨⟨path, hp, d, hd, rfl, he⟩, hn⟩
  · rintro ⟨⟨path, hp, d, hd, rfl, he⟩, hn⟩
    exact ⟨⟨path, hp, d, ⟨hd, he⟩, rfl⟩, hn⟩

theorem filterMap_flatMap' {α β γ : Type} (f : α → List β) (g : β → Option γ) : ∀ xs : List α,
    (xs.flatMap f).filterMap g = xs.flatMap fun x => (f x).filterMap g
  | [] => rfl
  | x :: r => by simp [List.flatMap_cons, List.filterMap_append, filterMap_flatMap' f g r]

/-- the message / enum compiler objects of a module are the types of all its files -/
theorem moduleOf_keys (opts : List Str) (files : List FileD) (k : Str) :
    (moduleOf opts files k).built.filterMap builtKey
      = (filesOf files k).flatMap fun fd => (allTypes (toFileP fd)).map typeKey := by
  rw [moduleOf_built, List.filterMap_append, filterMap_flatMap',
    flatMap_filterMap_nil servicesLog _ (fun fd => svcsLog_keys fd.services 0), List.append_nil]
  congr 1
  funext fd
  exact typesLog_keys _ fd

end Bp.SrcTieParser
