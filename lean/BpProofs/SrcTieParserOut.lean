import BpProofs.SrcTieParserGen
/-
  THE TIE BETWEEN THE TRANSLATED SOURCE OF plugin/parser.py AND CLOSED FORMS, part 3: the loops of `generate_code`
  that read the types and the services of every input file into the OutputTemplate of its package, the loop that
  names the output files, the `__init__.py` files, and `generate_code` as a whole (`generate_code_eq`).
-/
set_option linter.unusedSimpArgs false
set_option linter.unusedVariables false
namespace Bp.SrcTieParser
open Bp Bp.Py Bp.Py.Prs Bp.Importing Bp.Plugin Bp.Src.Parser

/-! ### reading the types and the services of the input files -/

/-- the compiler objects constructed for the types of one file: every yielded item through `read_protobuf_type` -/
def typesLog (pyd : Bool) (fd : FileD) : List Built := (pFile fd).flatMap (readLog pyd)

/-- the second loop on one OutputTemplate -/
def addTypes (t : OutTpl) : OutTpl := addBuilt t (t.input_files.flatMap (typesLog t.pydantic_dataclasses))

/-- the compiler objects constructed for a list of services, counting from `i` -/
def svcsLog : Int → List SvcD → List Built
  | _, [] => []
  | i, s :: r => svcLog s i ++ svcsLog (i + 1) r

def servicesLog (fd : FileD) : List Built := svcsLog 0 fd.services

/-- the third loop on one OutputTemplate -/
def addServices (t : OutTpl) : OutTpl := addBuilt t (t.input_files.flatMap servicesLog)

theorem loop4_eq (fuel : Nat) (ex : PyPath → Bool) (src : FileD) : ∀ (items : List (DItem × List Int)) (t : OutTpl),
    generate_code.loop4 fuel ex src items t = .ok (addBuilt t (items.flatMap (readLog t.pydantic_dataclasses)))
  | [], t => by simp [generate_code.loop4, addBuilt_nil]
  | (item, path) :: r, t => by
    simp only [generate_code.loop4, read_protobuf_type_eq, ok_bind]
    rw [loop4_eq fuel ex src r, addBuilt_addBuilt]
    rfl

theorem loop3_eq (fuel : Nat) (ex : PyPath → Bool) : ∀ (files : List FileD) (t : OutTpl),
    (∀ f ∈ files, depthMsgs f.messages < fuel) →
    generate_code.loop3 fuel ex files t = .ok (addBuilt t (files.flatMap (typesLog t.pydantic_dataclasses)))
  | [], t, _ => by simp [generate_code.loop3, addBuilt_nil]
  | f :: r, t, h => by
    simp only [generate_code.loop3, traverse_eq fuel f (h f List.mem_cons_self), ok_bind, loop4_eq]
    rw [loop3_eq fuel ex r _ (fun g hg => h g (List.mem_cons_of_mem _ hg)), addBuilt_addBuilt]
    rfl

theorem loop7_eq (fuel : Nat) (ex : PyPath → Bool) (src : FileD) : ∀ (svcs : List SvcD) (i : Int) (t : OutTpl),
    generate_code.loop7 fuel ex src i svcs t = .ok (addBuilt t (svcsLog i svcs))
  | [], i, t => by simp [generate_code.loop7, svcsLog, addBuilt_nil]
  | s :: r, i, t => by
    simp only [generate_code.loop7, read_protobuf_service_eq, ok_bind]
    rw [loop7_eq fuel ex src r (i + 1), addBuilt_addBuilt]
    rfl

theorem loop6_eq (fuel : Nat) (ex : PyPath → Bool) : ∀ (files : List FileD) (t : OutTpl),
    generate_code.loop6 fuel ex files t = .ok (addBuilt t (files.flatMap servicesLog))
  | [], t => by simp [generate_code.loop6, addBuilt_nil]
  | f :: r, t => by
    simp only [generate_code.loop6, loop7_eq, ok_bind]
    rw [loop6_eq fuel ex r, addBuilt_addBuilt]
    rfl

/-- a loop over the items of a dict that changes the value object and stores it back: the values mapped -/
theorem writeback_loop (loop : List (Str × OutTpl) → Dict OutTpl → Res (Dict OutTpl)) (inner : OutTpl → Res OutTpl)
    (g : OutTpl → OutTpl) (hnil : ∀ D, loop [] D = .ok D)
    (hcons : ∀ k t r D, loop ((k, t) :: r) D = (inner t).bind fun t' => loop r (dictSet D k t')) :
    ∀ (todo done : Dict OutTpl), ((done ++ todo).map Prod.fst).Nodup → (∀ p ∈ todo, inner p.2 = .ok (g p.2)) →
      loop todo (done ++ todo) = .ok (done ++ todo.map fun p => (p.1, g p.2))
  | [], done, _, _ => by simp [hnil]
  | (k, t) :: r, done, hn, hi => by
    have hk : k ∉ done.map Prod.fst := by
      intro e
      rw [List.map_append, List.nodup_append] at hn
      exact hn.2.2 k e k (by simp) rfl
    rw [hcons, hi (k, t) List.mem_cons_self, ok_bind, dictSet_mid done k t (g t) r hk]
    have := writeback_loop loop inner g hnil hcons r (done ++ [(k, g t)])
      (by simpa [List.map_append] using hn) (fun p hp => hi p (List.mem_cons_of_mem _ hp))
    simpa [List.append_assoc] using this

theorem loop2_eq (fuel : Nat) (ex : PyPath → Bool) (D : Dict OutTpl) (hn : (D.map Prod.fst).Nodup)
    (hd : ∀ p ∈ D, ∀ f ∈ p.2.input_files, depthMsgs f.messages < fuel) :
    generate_code.loop2 fuel ex D D = .ok (D.map fun p => (p.1, addTypes p.2)) := by
  have := writeback_loop (generate_code.loop2 fuel ex) (fun t => generate_code.loop3 fuel ex t.input_files t) addTypes
    (fun D => rfl) (fun k t r D => rfl) D [] (by simpa using hn)
    (fun p hp => loop3_eq fuel ex _ _ (hd p hp))
  simpa using this

theorem loop5_eq (fuel : Nat) (ex : PyPath → Bool) (D : Dict OutTpl) (hn : (D.map Prod.fst).Nodup) :
    generate_code.loop5 fuel ex D D = .ok (D.map fun p => (p.1, addServices p.2)) := by
  have := writeback_loop (generate_code.loop5 fuel ex) (fun t => generate_code.loop6 fuel ex t.input_files t) addServices
    (fun D => rfl) (fun k t r D => rfl) D [] (by simpa using hn)
    (fun p hp => loop6_eq fuel ex _ _)
  simpa using this

/-! ### naming the output files -/

/-- `pathlib.Path(*package.split("."), "__init__.py")` -/
def pkgPath (k : Str) : PyPath := pathNew (splitOn '.' k ++ ["__init__.py".toList])

/-- the response file of one output package -/
def moduleFile (p : Str × OutTpl) : RFile := { name := pathStr (pkgPath p.1), content := some p.2 }

theorem loop8_eq (fuel : Nat) (ex : PyPath → Bool) : ∀ (D : List (Str × OutTpl)) (resp : Response) (paths : List PyPath),
    generate_code.loop8 fuel ex D (resp, paths)
      = .ok ({ resp with file := resp.file ++ (D.filter (·.2.output)).map moduleFile },
             ((D.filter (·.2.output)).map (pkgPath ·.1)).foldl setAdd paths)
  | [], resp, paths => by simp [generate_code.loop8]
  | (k, t) :: r, resp, paths => by
    simp only [generate_code.loop8]
    cases h : t.output
    · simp only [Bool.not_false, if_true, loop8_eq fuel ex r, List.filter_cons, h, Bool.false_eq_true, if_false]
    · simp only [Bool.not_true, Bool.false_eq_true, if_false, loop8_eq fuel ex r, List.filter_cons, h, if_true,
        List.map_cons, List.foldl_cons, List.append_assoc, List.singleton_append]
      rfl

/-- the response file of one `__init__.py` -/
def initFile (p : PyPath) : RFile := { name := pathStr p, content := none }

theorem loop9_eq (fuel : Nat) (ex : PyPath → Bool) : ∀ (ps : List PyPath) (resp : Response),
    generate_code.loop9 fuel ex ps resp = .ok { resp with file := resp.file ++ ps.map initFile }
  | [], resp => by simp [generate_code.loop9]
  | p :: r, resp => by
    simp only [generate_code.loop9, loop9_eq fuel ex r, List.map_cons, List.append_assoc, List.singleton_append]
    rfl

/-- the `__init__.py` files of the directories above the output files that do not exist yet and are no output file -/
def initFiles (ex : PyPath → Bool) (paths : List PyPath) : List PyPath :=
  setDiff (setOfList (paths.flatMap fun path =>
    ((pathParents path).filter (fun directory => !(ex (pathJoin directory "__init__.py".toList)))).map
      (fun directory => pathJoin directory "__init__.py".toList))) paths

/-! ### `generate_code` as a whole -/

/-- the dict of output packages after the three loops -/
def genModules (opts : List Str) (files : List FileD) : Dict OutTpl :=
  ((gather opts files).map fun p => (p.1, addTypes p.2)).map fun p => (p.1, addServices p.2)

/-- the output packages that are written (`output` is False for google.protobuf without INCLUDE_GOOGLE) -/
def genOutputs (opts : List Str) (files : List FileD) : Dict OutTpl := (genModules opts files).filter (·.2.output)

/-- the set of the paths of the output files -/
def genPaths (opts : List Str) (files : List FileD) : List PyPath :=
  ((genOutputs opts files).map (pkgPath ·.1)).foldl setAdd []

/-- the CodeGeneratorResponse -/
def genResponse (ex : PyPath → Bool) (req : Request) : Response :=
  { supported_features := some "FEATURE_PROTO3_OPTIONAL".toList
    file := (genOutputs (optsOf req.parameter) req.proto_file).map moduleFile
              ++ (initFiles ex (genPaths (optsOf req.parameter) req.proto_file)).map initFile }

theorem gather_keys (opts : List Str) (files : List FileD) :
    (gather opts files).map Prod.fst = firstOcc (files.map (·.package)) := by
  simp [gather, List.map_map, Function.comp_def]

theorem gather_input_files (opts : List Str) (files : List FileD) :
    ∀ p ∈ gather opts files, p.2.input_files = filesOf files p.1 := by
  intro p hp
  obtain ⟨k, _, rfl⟩ := List.mem_map.1 hp
  rfl

/-- **`generate_code` as written** returns `genResponse` (fuel above the nesting depth of every file, at most one
    `typing.` option) -/
theorem generate_code_eq (fuel : Nat) (ex : PyPath → Bool) (req : Request)
    (hfuel : ∀ f ∈ req.proto_file, depthMsgs f.messages < fuel)
    (hto : (typingOpts (optsOf req.parameter)).length ≤ 1) :
    generate_code fuel ex req = .ok (genResponse ex req) := by
  unfold generate_code
  have hopts : (if (!req.parameter.isEmpty) then splitOn ',' req.parameter else ([] : List Str)) = optsOf req.parameter := rfl
  simp only [hopts]
  rw [loop1_gather fuel ex _ hto]
  simp only [ok_bind]
  have hn1 : ((gather (optsOf req.parameter) req.proto_file).map Prod.fst).Nodup := by
    rw [gather_keys]; exact firstOcc_nodup _
  rw [loop2_eq fuel ex _ hn1 (by
    intro p hp f hf
    rw [gather_input_files _ _ p hp] at hf
    exact hfuel f (List.mem_filter.1 hf).1)]
  simp only [ok_bind]
  rw [loop5_eq fuel ex _ (by simpa [List.map_map, Function.comp_def] using hn1)]
  simp only [ok_bind, loop8_eq, loop9_eq]
  rfl

/-- … and with two or more `typing.` options it raises ValueError (when there is a file at all) -/
theorem generate_code_raises (fuel : Nat) (ex : PyPath → Bool) (req : Request) (hne : req.proto_file ≠ [])
    (hto : 1 < (typingOpts (optsOf req.parameter)).length) :
    generate_code fuel ex req = .raise .value := by
  unfold generate_code
  have hopts : (if (!req.parameter.isEmpty) then splitOn ',' req.parameter else ([] : List Str)) = optsOf req.parameter := rfl
  simp only [hopts]
  cases hf : req.proto_file with
  | nil => exact absurd hf hne
  | cons f r => rw [loop1_raises fuel ex _ hto]; rfl

end Bp.SrcTieParser
