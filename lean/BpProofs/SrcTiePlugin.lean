import BpProofs.Gen.SrcPlugin
import BpProofs.PluginField
import BpProofs.ImportingParse
import BpModel.Gen.WireTables
import Mathlib.Tactic.IntervalCases
/-
  THE TIE BETWEEN THE TRANSLATED SOURCE OF plugin/models.py AND THE HAND-WRITTEN MODEL (C03).

  `Bp.Src.Models.*` (BpProofs/Gen/SrcPlugin.lean) is regenerated from the Python AST of
  src/betterproto/plugin/models.py on every run.  The theorems below say that the field classification as
  written — `get_map_entry`, `is_map`, `is_oneof` and the properties of the four concrete field compilers —
  computes exactly what the functions of BpModel/Plugin.lean compute (`getMapEntry`, `isMap`, `isOneof`,
  `wrapsOf`, the tables `fieldTypeStr` / `scalarPyType` / `messageTypes`, the components of `compileField`'s
  `CField`), for EVERY descriptor field and parent message, with no well-formedness guard.
  What is trusted is the meaning of the Python primitives fixed in BpProofs/PyPrelude*.lean
  (PyPreludePlugin.lean for the descriptor objects).
-/
set_option linter.unusedSimpArgs false
set_option linter.unusedVariables false
namespace Bp.SrcTiePlugin
open Bp Bp.Py Bp.Importing Bp.Plugin Bp.Gen.Plugin Bp.Src.Models

/-! ### the Python primitives on the operands that occur -/

theorem splitOn_ne_nil (c : Char) : ∀ s : Str, splitOn c s ≠ []
  | [] => by simp [splitOn]
  | a :: s => by
    unfold splitOn
    by_cases h : a = c
    · simp [h]
    · simp only [h, if_false]
      cases splitOn c s <;> simp

theorem takeWhile_all {α} (p : α → Bool) : ∀ l : List α, (∀ y ∈ l, p y = true) → l.takeWhile p = l
  | [], _ => rfl
  | a :: r, h => by
    simp only [List.takeWhile, h a List.mem_cons_self]
    rw [takeWhile_all p r (fun y hy => h y (List.mem_cons_of_mem _ hy))]

theorem lastSeg_cons_dot (r : Str) : lastSeg ('.' :: r) = lastSeg r := by
  unfold lastSeg
  rw [List.reverse_cons]
  by_cases h : ∀ y ∈ r.reverse, (decide (y ≠ '.')) = true
  · rw [takeWhile_stop _ _ _ [] h (by simp)]
    rw [takeWhile_all _ _ h]
  · simp only [not_forall] at h
    obtain ⟨y, hy, hq⟩ := h
    obtain ⟨a, b, hab⟩ := List.append_of_mem hy
    -- split r.reverse at its first '.'
    have key : ∀ (l : List Char) (x : List Char), (∃ y ∈ l, ¬ (decide (y ≠ '.')) = true) →
        (l ++ x).takeWhile (fun c => decide (c ≠ '.')) = l.takeWhile (fun c => decide (c ≠ '.')) := by
      intro l x
      induction l with
      | nil => intro h; obtain ⟨_, h, _⟩ := h; cases h
      | cons z t ih =>
        intro h
        by_cases hz : (decide (z ≠ '.')) = true
        · simp only [List.cons_append, List.takeWhile, hz]
          rw [ih]
          obtain ⟨y, hy, hq⟩ := h
          rcases List.mem_cons.1 hy with e | e
          · subst e; exact absurd hz hq
          · exact ⟨y, e, hq⟩
        · simp only [List.cons_append, List.takeWhile, hz]
    rw [key _ _ ⟨y, hy, hq⟩]

theorem lastSeg_cons_nodot (c : Char) (r : Str) (hc : c ≠ '.') (hr : '.' ∈ r) : lastSeg (c :: r) = lastSeg r := by
  obtain ⟨a, b, hab⟩ := List.append_of_mem hr
  -- take the LAST '.' : use reverse
  unfold lastSeg
  rw [List.reverse_cons]
  have hmem : '.' ∈ r.reverse := by simpa using hr
  have key : ∀ (l : List Char) (x : List Char), (∃ y ∈ l, ¬ (decide (y ≠ '.')) = true) →
      (l ++ x).takeWhile (fun c => decide (c ≠ '.')) = l.takeWhile (fun c => decide (c ≠ '.')) := by
    intro l x
    induction l with
    | nil => intro h; obtain ⟨_, h, _⟩ := h; cases h
    | cons z t ih =>
      intro h
      by_cases hz : (decide (z ≠ '.')) = true
      · simp only [List.cons_append, List.takeWhile, hz]
        rw [ih]
        obtain ⟨y, hy, hq⟩ := h
        rcases List.mem_cons.1 hy with e | e
        · subst e; exact absurd hz hq
        · exact ⟨y, e, hq⟩
      · simp only [List.cons_append, List.takeWhile, hz]
  rw [key _ _ ⟨'.', hmem, by simp⟩]

theorem lastSeg_nodot (s : Str) (h : '.' ∉ s) : lastSeg s = s := by
  unfold lastSeg
  rw [takeWhile_all, List.reverse_reverse]
  intro y hy
  have : y ≠ '.' := fun e => h (by simpa [e] using hy)
  simp [this]

/-- the last element of `s.split(".")` is the model's `lastSeg s` -/
theorem getLast_splitOn : ∀ s : Str, (splitOn '.' s).getLast? = some (lastSeg s)
  | [] => by simp [splitOn, lastSeg]
  | c :: r => by
    have ih := getLast_splitOn r
    unfold splitOn
    by_cases hc : c = '.'
    · subst hc
      simp only [if_true]
      rw [List.getLast?_cons, ih, lastSeg_cons_dot]
      rfl
    · simp only [hc, if_false]
      cases hs : splitOn '.' r with
      | nil => exact absurd hs (splitOn_ne_nil _ _)
      | cons w ws =>
        rw [hs] at ih
        simp only
        cases ws with
        | nil =>
          -- no '.' in r
          have hr : '.' ∉ r := by
            intro hm
            obtain ⟨a, b, hab⟩ := List.append_of_mem hm
            -- choose the FIRST '.': a has none
            have : ∃ a b, r = a ++ '.' :: b ∧ '.' ∉ a := by
              clear hab a b ih hs
              induction r with
              | nil => cases hm
              | cons z t iht =>
                by_cases hz : z = '.'
                · exact ⟨[], t, by simp [hz], by simp⟩
                · rcases List.mem_cons.1 hm with e | e
                  · exact absurd e.symm hz
                  · obtain ⟨a, b, e1, e2⟩ := iht e
                    exact ⟨z :: a, b, by simp [e1], by
                      intro h; rcases List.mem_cons.1 h with h | h
                      · exact hz h.symm
                      · exact e2 h⟩
            obtain ⟨a, b, e1, e2⟩ := this
            rw [e1, Bp.Importing.splitOn_append '.' a b e2] at hs
            have := congrArg List.length hs
            have hne := splitOn_ne_nil '.' b
            cases hb : splitOn '.' b with
            | nil => exact hne hb
            | cons _ _ => rw [hb] at this; simp at this
          simp only [List.getLast?_singleton] at ih ⊢
          rw [lastSeg_nodot r hr] at ih
          rw [lastSeg_nodot (c :: r) (by
            intro h; rcases List.mem_cons.1 h with h | h
            · exact hc h.symm
            · exact hr h)]
          injection ih with ih
          rw [ih]
        | cons w2 ws2 =>
          have hr : '.' ∈ r := by
            by_contra hn
            rw [Bp.Importing.splitOn_no_sep '.' r hn] at hs
            cases hs
          rw [List.getLast?_cons_cons] at ih ⊢
          rw [ih, lastSeg_cons_nodot c r hc hr]

theorem index_neg_one_getLast {α : Type} (xs : List α) (x : α) (h : xs.getLast? = some x) :
    Py.index xs (-1) = .ok x := by
  unfold Py.index
  have hne : xs ≠ [] := by intro e; subst e; cases h
  have hl : 0 < xs.length := List.length_pos_iff.mpr hne
  simp only [show ((-1 : Int) < 0) from by decide, if_true]
  have h1 : ¬ ((-1 : Int) + ((xs.length : Nat) : Int) < 0) := by omega
  have h2 : ((-1 : Int) + ((xs.length : Nat) : Int)).toNat = xs.length - 1 := by omega
  rw [if_neg h1, h2, ← List.getLast?_eq_getElem?, h]

/-- `s.split(".").pop()` never raises and is `lastSeg s` -/
theorem pop_split (s : Str) : Py.index (splitOn '.' s) (-(1 : Int)) = .ok (lastSeg s) :=
  index_neg_one_getLast _ _ (getLast_splitOn s)

theorem typeMember_message : Py.Plg.typeMember "TYPE_MESSAGE".toList = typeMessage := rfl

/-! ### `get_map_entry`, `is_map`, `is_oneof` -/

/-- the loop of `get_map_entry`: the first nested map-entry message with that exact name -/
theorem loop1_eq (fuel : Nat) (en : Str) : ∀ xs : List MsgP,
    get_map_entry.loop1 fuel en xs
      = .ok (match xs.find? (fun n => n.mapEntry && decide (n.name = en)) with
             | some n => .ret (some n)
             | none => .next ())
  | [] => rfl
  | n :: r => by
    unfold get_map_entry.loop1
    show (if (n.mapEntry && decide (n.name = en)) = true then _ else _) = _
    by_cases h : (n.mapEntry && decide (n.name = en)) = true
    · rw [if_pos h]
      simp only [List.find?_cons, h]
    · rw [if_neg h, loop1_eq fuel en r]
      have h' : (n.mapEntry && decide (n.name = en)) = false := by simpa using h
      simp only [List.find?_cons, h']

/-- `get_map_entry(field, <DescriptorProto>)` as written is `getMapEntry` -/
theorem get_map_entry_desc (fuel : Nat) (f : FieldP) (m : MsgP) :
    get_map_entry fuel f (.descriptor m) = .ok (getMapEntry f m) := by
  unfold get_map_entry getMapEntry
  simp only [Py.Plg.fType, Py.Plg.fLabel, Py.Plg.fTypeName, Py.Plg.nestedTypeOr, typeMember_message, pop_split,
    Res.bind, loop1_eq]
  by_cases h1 : f.type = typeMessage <;> by_cases h2 : f.label = Label.repeated <;>
    simp only [h1, h2, decide_true, decide_false, Bool.and_true, Bool.and_false, Bool.true_and, Bool.false_and,
      if_true, if_false, and_self, and_true, and_false, Bool.false_eq_true, reduceCtorEq]
  cases m.nested.find? (fun n => n.mapEntry && decide (n.name = lastSeg f.typeName)) <;> rfl

/-- `get_map_entry(field, <compiler object>)` as written finds nothing (the object has no `nested_type`) -/
theorem get_map_entry_compiler (fuel : Nat) (f : FieldP) :
    get_map_entry fuel f .compiler = .ok none := by
  unfold get_map_entry
  simp only [Py.Plg.nestedTypeOr, pop_split, Res.bind, loop1_eq, List.find?]
  split <;> rfl

/-- `is_map(field, <DescriptorProto>)` as written is `isMap` -/
theorem is_map_desc (fuel : Nat) (f : FieldP) (m : MsgP) : is_map fuel f (.descriptor m) = .ok (isMap f m) := by
  unfold is_map isMap
  rw [get_map_entry_desc]; rfl

/-- `is_map(field, <compiler object>)` as written is False -/
theorem is_map_compiler (fuel : Nat) (f : FieldP) : is_map fuel f .compiler = .ok false := by
  unfold is_map
  rw [get_map_entry_compiler]; rfl

/-- `is_oneof` as written is `isOneof` -/
theorem is_oneof_eq (fuel : Nat) (f : FieldP) : is_oneof fuel f = .ok (isOneof f) := by
  unfold is_oneof isOneof Py.Plg.fProto3Optional Py.Plg.whichOneofIndex
  cases f.oneofIndex <;> simp

/-! ### `field_wraps` -/

/-- the keys of `WRAPPER_TYPES` (regenerated from compile/importing.py) -/
def wrapperKeys : List Str := Bp.Gen.importWrappers.map (fun p => p.1.toList)

theorem inWrapperTypes_iff (x : Str) : Py.Plg.inWrapperTypes x = true ↔ x ∈ wrapperKeys := by
  unfold Py.Plg.inWrapperTypes wrapperKeys
  simp only [List.any_eq_true, List.mem_map, decide_eq_true_eq]

/-- `field_wraps` as a function of the type name -/
def srcWraps (tn : Str) : Option Str :=
  if Py.Plg.inWrapperTypes tn then
    some ("betterproto.TYPE_".toList ++ Py.Plg.upper (Py.sliceTo (lastSeg tn) (-(Py.llen "Value".toList))))
  else none

theorem srcWraps_keys : ∀ k ∈ wrapperKeys, srcWraps k = (wrapsOf k).map ("betterproto.".toList ++ ·) := by
  decide +kernel
theorem fieldWraps_keys : ∀ k ∈ fieldWraps.map Prod.fst, k ∈ wrapperKeys := by decide +kernel

theorem srcWraps_eq (tn : Str) : srcWraps tn = (wrapsOf tn).map ("betterproto.".toList ++ ·) := by
  by_cases h : tn ∈ wrapperKeys
  · exact srcWraps_keys tn h
  · have h1 : Py.Plg.inWrapperTypes tn = false := by
      rw [← Bool.not_eq_true, inWrapperTypes_iff]; exact h
    have h2 : lookup? tn fieldWraps = none := lookup?_none (fun hm => h (fieldWraps_keys tn hm))
    unfold srcWraps wrapsOf
    simp only [h1, h2, Bool.false_eq_true, if_false, Option.map_none]

/-- `FieldCompiler.field_wraps` as written is `wrapsOf` of the type name (with the `betterproto.` prefix of the
    generated text) -/
theorem field_wraps_eq (fuel : Nat) (self : Py.Plg.Self) :
    FieldCompiler.field_wraps fuel self
      = .ok ((wrapsOf self.proto_obj.typeName).map ("betterproto.".toList ++ ·)) := by
  rw [← srcWraps_eq]
  unfold FieldCompiler.field_wraps srcWraps
  simp only [Py.Plg.fTypeName, pop_split, Res.bind]
  split <;> rfl

/-! ### `optional`, `repeated`, `packed` -/

theorem optional_eq (fuel : Nat) (self : Py.Plg.Self) :
    FieldCompiler.optional fuel self = .ok self.proto_obj.proto3Optional := rfl

/-- `FieldCompiler.repeated` as written: the label alone — the `is_map` it asks is asked of the compiler object
    `self.parent`, which has no `nested_type`, and answers False -/
theorem repeated_eq (fuel : Nat) (self : Py.Plg.Self) :
    FieldCompiler.repeated fuel self = .ok (decide (self.proto_obj.label = Label.repeated)) := by
  unfold FieldCompiler.repeated
  simp only [is_map_compiler, Py.Plg.fLabel, Res.bind]
  by_cases h : self.proto_obj.label = Label.repeated <;> simp [h, Res.bind]

theorem packedTable : PROTO_PACKED_TYPES = [1, 2, 3, 4, 5, 6, 7, 8, 13, 15, 16, 17, 18] := by decide

theorem lookupN?_none_of_ge {β} (b : Nat) : ∀ (l : List (Nat × β)) (t : Nat), (∀ p ∈ l, p.1 < b) → b ≤ t → lookupN? t l = none
  | [], _, _, _ => rfl
  | (a, v) :: r, t, h, ht => by
    have ha : a < b := h (a, v) List.mem_cons_self
    have : a ≠ t := by omega
    simp only [lookupN?, this, if_false]
    exact lookupN?_none_of_ge b r t (fun p hp => h p (List.mem_cons_of_mem _ hp)) ht

theorem contains_false_of_ge (b : Nat) (l : List Nat) (t : Nat) (h : ∀ x ∈ l, x < b) (ht : b ≤ t) : l.contains t = false := by
  rw [← Bool.not_eq_true, List.contains_iff_mem]
  intro hm
  have := h t hm
  omega

/-- the plugin's packed types are the runtime's `PACKED_TYPES` (`Gen.packedTypes`) without the enum type -/
theorem packedTable_spec (t : Nat) :
    PROTO_PACKED_TYPES.contains t = (specType t).any (fun p => Gen.packedTypes.contains p && p != .enum) := by
  by_cases h : t < 19
  · revert t; decide
  · rw [contains_false_of_ge 19 _ t (by decide) (by omega)]
    unfold specType
    rw [lookupN?_none_of_ge 19 _ t (by decide) (by omega)]
    rfl

theorem packed_eq (fuel : Nat) (self : Py.Plg.Self) :
    FieldCompiler.packed fuel self
      = .ok (decide (self.proto_obj.label = Label.repeated) && PROTO_PACKED_TYPES.contains self.proto_obj.type) := by
  unfold FieldCompiler.packed
  rw [repeated_eq]; rfl

/-! ### `field_type` -/

/-- `.name.lower().replace("type_", "")` -/
def ctorOfName (nm : Str) : Str := Py.Plg.replace (Py.lower nm) "type_".toList "".toList

theorem fieldTypeStr_table : fieldTypeStr = descTypeName.map (fun p => (p.1, ctorOfName p.2)) := by decide +kernel

theorem lookupN?_map {β γ} (g : β → γ) (n : Nat) : ∀ l : List (Nat × β),
    lookupN? n (l.map (fun p => (p.1, g p.2))) = (lookupN? n l).map g
  | [] => rfl
  | (a, v) :: r => by
    simp only [List.map, lookupN?]
    by_cases h : a = n
    · simp [h]
    · simp only [h, if_false]; exact lookupN?_map g n r

/-- `FieldCompiler.field_type` as written is the model's constructor-name table `fieldTypeStr` (ValueError for a
    number that is no member of FieldDescriptorProtoType: the model's `none`) -/
theorem field_type_eq (fuel : Nat) (self : Py.Plg.Self) :
    FieldCompiler.field_type fuel self
      = (match lookupN? self.proto_obj.type fieldTypeStr with
         | some s => .ok s
         | none => .raise .value) := by
  unfold FieldCompiler.field_type Py.Plg.typeEnumName Py.Plg.fType
  rw [fieldTypeStr_table, lookupN?_map]
  cases lookupN? self.proto_obj.type descTypeName <;> rfl

/-! ### `py_type` -/

theorem floatTable : PROTO_FLOAT_TYPES = [1, 2] := by decide
theorem intTable : PROTO_INT_TYPES = [3, 4, 5, 6, 7, 13, 15, 16, 17, 18] := by decide
theorem boolTable : PROTO_BOOL_TYPES = [8] := by decide
theorem strTable : PROTO_STR_TYPES = [9] := by decide
theorem bytesTable : PROTO_BYTES_TYPES = [12] := by decide
theorem messageTable : PROTO_MESSAGE_TYPES = [11, 14] := by decide

/-- `py_type` with the result of `get_type_reference` abstracted: the shape of the model's `pyTypeOf` -/
def pyTypeVia (t : Nat) (ref : Res Str) : Res Str :=
  match lookupN? t scalarPyType with
  | some n => .ok n
  | none => if messageTypes.contains t then ref else .raise .notImpl

def srcPyType (t : Nat) (ref : Res Str) : Res Str :=
  if PROTO_FLOAT_TYPES.contains t then .ok "float".toList
  else if PROTO_INT_TYPES.contains t then .ok "int".toList
  else if PROTO_BOOL_TYPES.contains t then .ok "bool".toList
  else if PROTO_STR_TYPES.contains t then .ok "str".toList
  else if PROTO_BYTES_TYPES.contains t then .ok "bytes".toList
  else if PROTO_MESSAGE_TYPES.contains t then ref
  else .raise .notImpl

theorem srcPyType_eq (t : Nat) (ref : Res Str) : srcPyType t ref = pyTypeVia t ref := by
  by_cases h : t < 19
  · interval_cases t <;> rfl
  · have hge : 19 ≤ t := by omega
    unfold srcPyType pyTypeVia
    rw [floatTable, intTable, boolTable, strTable, bytesTable, messageTable,
      contains_false_of_ge 19 _ t (by decide) hge, contains_false_of_ge 19 _ t (by decide) hge,
      contains_false_of_ge 19 _ t (by decide) hge, contains_false_of_ge 19 _ t (by decide) hge,
      contains_false_of_ge 19 _ t (by decide) hge, contains_false_of_ge 19 _ t (by decide) hge,
      lookupN?_none_of_ge 19 _ t (by decide) hge, contains_false_of_ge 19 messageTypes t (by decide) hge]
    rfl

/-- `FieldCompiler.py_type` as written classifies the descriptor type as the model's `pyTypeOf` does: the
    scalar types get the names of `scalarPyType`, TYPE_MESSAGE / TYPE_ENUM (`messageTypes`) delegate to
    `get_type_reference` on the type name, every other number raises NotImplementedError -/
theorem py_type_eq (fuel : Nat) (self : Py.Plg.Self) :
    FieldCompiler.py_type fuel self
      = pyTypeVia self.proto_obj.type (self.get_type_reference self.proto_obj.typeName) := by
  rw [← srcPyType_eq]
  unfold FieldCompiler.py_type srcPyType Py.Plg.fType Py.Plg.fTypeName
  have hb : ∀ r : Res Str, (r.bind fun t1 => .ok t1) = r := by intro r; cases r <;> rfl
  simp only [hb]

/-! ### `betterproto_field_args` -/

/-- the arguments after the field number of a generated line, as `CField` describes them:
    `[betterproto.<k>, betterproto.<v>] [wraps=betterproto.<w>] [optional=True] [group="<g>"]` -/
def argsOf (mt : Option (Name × Name)) (w : Option Name) (o : Bool) (g : Option Name) : List Str :=
  (match mt with | some (k, v) => ["betterproto.".toList ++ k, "betterproto.".toList ++ v] | none => [])
  ++ (match w with | some w => ["wraps=betterproto.".toList ++ w] | none => [])
  ++ (if o then ["optional=True".toList] else [])
  ++ (match g with | some g => ["group=\"".toList ++ g ++ "\"".toList] | none => [])

/-- … of a compiled field -/
def cfieldArgs (c : CField) : List Str := argsOf c.mapTypes c.wraps c.optional c.group

/-- the arguments `FieldCompiler.betterproto_field_args` builds from a `field_wraps` and an `optional` -/
theorem args_core (w : Option Name) (o : Bool) :
    (let args : List Str := []
     let t1 := w.map ("betterproto.".toList ++ ·)
     if Py.Plg.truthyOptStr t1 = true then
       let args := args ++ ["wraps=".toList ++ Py.Plg.fmtOptStr t1]
       if o = true then args ++ ["optional=True".toList] else args
     else
       if o = true then args ++ ["optional=True".toList] else args) = argsOf none w o none := by
  cases w <;> cases o <;> rfl

/-- `FieldCompiler.betterproto_field_args` as written: `wraps=` from `wrapsOf`, `optional=True` from
    `proto3_optional`, nothing else -/
theorem field_args_eq (fuel : Nat) (self : Py.Plg.Self) :
    FieldCompiler.betterproto_field_args fuel self
      = .ok (argsOf none (wrapsOf self.proto_obj.typeName) self.proto_obj.proto3Optional none) := by
  unfold FieldCompiler.betterproto_field_args
  rw [field_wraps_eq, optional_eq, ← args_core]
  simp only [Res.bind]
  cases wrapsOf self.proto_obj.typeName <;> cases self.proto_obj.proto3Optional <;> rfl

theorem index_nat {α : Type} (xs : List α) (n : Nat) :
    Py.index xs ((n : Nat) : Int) = (match xs[n]? with | some x => .ok x | none => .raise .key) := by
  unfold Py.index
  have h0 : ¬ (((n : Nat) : Int) < 0) := by omega
  simp only [h0, if_false, Int.toNat_natCast]
  cases xs[n]? <;> rfl

theorem argsOf_group (w : Option Name) (o : Bool) (g : Name) :
    argsOf none w o none ++ ["group=\"".toList ++ g ++ "\"".toList] = argsOf none w o (some g) := by
  cases w <;> cases o <;> rfl

/-- `OneOfFieldCompiler.betterproto_field_args` as written: the arguments of the base class followed by
    `group="<name of parent.oneof_decl[oneof_index]>"`; IndexError when the index is dangling -/
theorem oneof_field_args_eq (fuel : Nat) (self : Py.Plg.Self) :
    OneOfFieldCompiler.betterproto_field_args fuel self
      = (match self.parent_proto_obj.oneofs[self.proto_obj.oneofIndex.getD 0]? with
         | some g => .ok (argsOf none (wrapsOf self.proto_obj.typeName) self.proto_obj.proto3Optional (some g))
         | none => .raise .key) := by
  unfold OneOfFieldCompiler.betterproto_field_args
  have h : OneOfFieldCompiler.betterproto_field_args.from_FieldCompiler fuel self
      = FieldCompiler.betterproto_field_args fuel self := rfl
  rw [h, field_args_eq]
  simp only [Res.bind, Py.Plg.oneofDeclName, Py.Plg.fOneofIndex, index_nat]
  cases self.parent_proto_obj.oneofs[self.proto_obj.oneofIndex.getD 0]? with
  | none => rfl
  | some g => simp only [argsOf_group]

/-- `PydanticOneOfFieldCompiler.betterproto_field_args` as written: as for a oneof member, with `optional=True`
    forced (the class overrides `optional`) -/
theorem pydantic_oneof_field_args_eq (fuel : Nat) (self : Py.Plg.Self) :
    PydanticOneOfFieldCompiler.betterproto_field_args fuel self
      = (match self.parent_proto_obj.oneofs[self.proto_obj.oneofIndex.getD 0]? with
         | some g => .ok (argsOf none (wrapsOf self.proto_obj.typeName) true (some g))
         | none => .raise .key) := by
  unfold PydanticOneOfFieldCompiler.betterproto_field_args
  have h : PydanticOneOfFieldCompiler.betterproto_field_args.from_FieldCompiler fuel self
      = .ok (argsOf none (wrapsOf self.proto_obj.typeName) true none) := by
    unfold PydanticOneOfFieldCompiler.betterproto_field_args.from_FieldCompiler
    have hw : PydanticOneOfFieldCompiler.field_wraps fuel self = FieldCompiler.field_wraps fuel self := rfl
    have ho : PydanticOneOfFieldCompiler.optional fuel self = .ok true := rfl
    rw [hw, ho, field_wraps_eq, ← args_core]
    simp only [Res.bind]
    cases wrapsOf self.proto_obj.typeName <;> rfl
  rw [h]
  simp only [Res.bind, Py.Plg.oneofDeclName, Py.Plg.fOneofIndex, index_nat]
  cases self.parent_proto_obj.oneofs[self.proto_obj.oneofIndex.getD 0]? with
  | none => rfl
  | some g => simp only [argsOf_group]

/-- `MapEntryCompiler.betterproto_field_args` as written: the two stored type names, nothing else -/
theorem map_field_args_eq (fuel : Nat) (self : Py.Plg.Self) :
    MapEntryCompiler.betterproto_field_args fuel self
      = .ok (argsOf (some (self.proto_k_type, self.proto_v_type)) none false none) := rfl

/-! ### the other concrete classes inherit the properties unchanged -/

theorem oneof_inherits (fuel : Nat) (self : Py.Plg.Self) :
    OneOfFieldCompiler.field_wraps fuel self = FieldCompiler.field_wraps fuel self
    ∧ OneOfFieldCompiler.optional fuel self = FieldCompiler.optional fuel self
    ∧ OneOfFieldCompiler.repeated fuel self = FieldCompiler.repeated fuel self
    ∧ OneOfFieldCompiler.field_type fuel self = FieldCompiler.field_type fuel self
    ∧ OneOfFieldCompiler.packed fuel self = FieldCompiler.packed fuel self
    ∧ OneOfFieldCompiler.py_type fuel self = FieldCompiler.py_type fuel self
    ∧ OneOfFieldCompiler.py_name fuel self = FieldCompiler.py_name fuel self :=
  ⟨rfl, rfl, rfl, rfl, rfl, rfl, rfl⟩

theorem pydantic_oneof_inherits (fuel : Nat) (self : Py.Plg.Self) :
    PydanticOneOfFieldCompiler.field_wraps fuel self = FieldCompiler.field_wraps fuel self
    ∧ PydanticOneOfFieldCompiler.optional fuel self = .ok true
    ∧ PydanticOneOfFieldCompiler.repeated fuel self = FieldCompiler.repeated fuel self
    ∧ PydanticOneOfFieldCompiler.field_type fuel self = FieldCompiler.field_type fuel self
    ∧ PydanticOneOfFieldCompiler.packed fuel self = FieldCompiler.packed fuel self
    ∧ PydanticOneOfFieldCompiler.py_type fuel self = FieldCompiler.py_type fuel self
    ∧ PydanticOneOfFieldCompiler.py_name fuel self = FieldCompiler.py_name fuel self :=
  ⟨rfl, rfl, rfl, rfl, rfl, rfl, rfl⟩

theorem map_entry_overrides (fuel : Nat) (self : Py.Plg.Self) :
    MapEntryCompiler.field_type fuel self = .ok "map".toList
    ∧ MapEntryCompiler.repeated fuel self = .ok false
    ∧ MapEntryCompiler.packed fuel self = .ok false
    ∧ MapEntryCompiler.optional fuel self = FieldCompiler.optional fuel self
    ∧ MapEntryCompiler.py_name fuel self = FieldCompiler.py_name fuel self :=
  ⟨rfl, rfl, rfl, rfl, rfl⟩

theorem py_name_eq (fuel : Nat) (self : Py.Plg.Self) :
    FieldCompiler.py_name fuel self = .ok (Naming.pythonizeFieldName self.proto_obj.name)
    ∧ FieldCompiler.proto_name fuel self = .ok self.proto_obj.name := ⟨rfl, rfl⟩

/-! ### against `compileField` -/

/-- the object the parser builds for field `f` of message `m` -/
def selfOf (f : FieldP) (m : MsgP) (ref : Str → Res Str) : Py.Plg.Self :=
  { proto_obj := f, parent_proto_obj := m, get_type_reference := ref }

theorem compileField_plain {nm : Naming} {m : MsgP} {f : FieldP} {c : CField}
    (hm : getMapEntry f m = none) (hc : compileField nm m f = some c) :
    lookupN? f.type fieldTypeStr = some c.ctor ∧ groupOf m f = some c.group ∧ c.wraps = wrapsOf f.typeName
    ∧ c.optional = f.proto3Optional ∧ c.mapTypes = none ∧ c.number = f.number ∧ c.pyName = nm.fld f.name
    ∧ ∃ py, pyTypeOf f = some py ∧ c.ann = annOf f py := by
  unfold compileField at hc
  rw [hm] at hc
  simp only at hc
  split at hc
  · rename_i ctor py g h1 h2 h3
    cases hc
    exact ⟨h1, h3, rfl, rfl, rfl, rfl, rfl, py, h2, rfl⟩
  · cases hc

theorem groupOf_not_oneof {m : MsgP} {f : FieldP} (h : isOneof f = false) : groupOf m f = some none := by
  unfold groupOf; simp [h]

theorem groupOf_oneof {m : MsgP} {f : FieldP} (h : isOneof f = true) :
    ∃ i, f.oneofIndex = some i ∧ groupOf m f = (m.oneofs[i]?).map some := by
  unfold isOneof at h
  cases hi : f.oneofIndex with
  | none => rw [hi] at h; simp at h
  | some i => exact ⟨i, rfl, by unfold groupOf isOneof; rw [hi] at h ⊢; simp only [h, if_true]⟩

/-- **a plain field** (the parser chose `FieldCompiler`: not a map, not a oneof member): the arguments and the
    constructor name the source as written produces are those of the model's `CField` -/
theorem plain_field_tie (fuel : Nat) (nm : Naming) (m : MsgP) (f : FieldP) (c : CField) (ref : Str → Res Str)
    (hm : getMapEntry f m = none) (ho : isOneof f = false) (hc : compileField nm m f = some c) :
    FieldCompiler.betterproto_field_args fuel (selfOf f m ref) = .ok (cfieldArgs c)
    ∧ FieldCompiler.field_type fuel (selfOf f m ref) = .ok c.ctor := by
  obtain ⟨h1, h2, h3, h4, h5, _, _, _⟩ := compileField_plain hm hc
  rw [groupOf_not_oneof ho] at h2
  injection h2 with h2
  refine ⟨?_, ?_⟩
  · rw [field_args_eq]; unfold cfieldArgs; rw [h3, h4, h5, ← h2]; rfl
  · rw [field_type_eq]; show (match lookupN? f.type fieldTypeStr with | some s => _ | none => _) = _
    rw [h1]

/-- **a oneof member** (the parser chose `OneOfFieldCompiler`): as above, the group included -/
theorem oneof_field_tie (fuel : Nat) (nm : Naming) (m : MsgP) (f : FieldP) (c : CField) (ref : Str → Res Str)
    (hm : getMapEntry f m = none) (ho : isOneof f = true) (hc : compileField nm m f = some c) :
    OneOfFieldCompiler.betterproto_field_args fuel (selfOf f m ref) = .ok (cfieldArgs c)
    ∧ OneOfFieldCompiler.field_type fuel (selfOf f m ref) = .ok c.ctor := by
  obtain ⟨h1, h2, h3, h4, h5, _, _, _⟩ := compileField_plain hm hc
  obtain ⟨i, hi, hg⟩ := groupOf_oneof (m := m) ho
  rw [hg] at h2
  refine ⟨?_, ?_⟩
  · rw [oneof_field_args_eq]
    show (match m.oneofs[f.oneofIndex.getD 0]? with | some g => _ | none => _) = _
    rw [hi]; simp only [Option.getD_some]
    cases hq : m.oneofs[i]? with
    | none => rw [hq] at h2; cases h2
    | some g =>
      rw [hq] at h2; simp only [Option.map_some] at h2; injection h2 with h2
      unfold cfieldArgs; rw [h3, h4, h5, ← h2]; rfl
  · show FieldCompiler.field_type fuel (selfOf f m ref) = _
    rw [field_type_eq]; show (match lookupN? f.type fieldTypeStr with | some s => _ | none => _) = _
    rw [h1]

/-- the same member under `PydanticOneOfFieldCompiler`: the model's arguments with `optional=True` forced -/
theorem pydantic_oneof_field_tie (fuel : Nat) (nm : Naming) (m : MsgP) (f : FieldP) (c : CField) (ref : Str → Res Str)
    (hm : getMapEntry f m = none) (ho : isOneof f = true) (hc : compileField nm m f = some c) :
    PydanticOneOfFieldCompiler.betterproto_field_args fuel (selfOf f m ref)
      = .ok (cfieldArgs { c with optional := true }) := by
  obtain ⟨h1, h2, h3, h4, h5, _, _, _⟩ := compileField_plain hm hc
  obtain ⟨i, hi, hg⟩ := groupOf_oneof (m := m) ho
  rw [hg] at h2
  rw [pydantic_oneof_field_args_eq]
  show (match m.oneofs[f.oneofIndex.getD 0]? with | some g => _ | none => _) = _
  rw [hi]; simp only [Option.getD_some]
  cases hq : m.oneofs[i]? with
  | none => rw [hq] at h2; cases h2
  | some g =>
    rw [hq] at h2; simp only [Option.map_some] at h2; injection h2 with h2
    unfold cfieldArgs; simp only; rw [h3, h5, ← h2]; rfl

/-- **a map field** (the parser chose `MapEntryCompiler`): with the two type names `__post_init__` stores
    (`FieldDescriptorProtoType(entry.field[0 / 1].type).name`), the arguments and the constructor name are the model's -/
theorem map_field_tie (fuel : Nat) (nm : Naming) (m e : MsgP) (f : FieldP) (c : CField) (self : Py.Plg.Self)
    (hm : getMapEntry f m = some e) (hc : compileField nm m f = some c)
    (hk : ∀ k v r, e.fields = k :: v :: r →
      Py.Plg.typeEnumName k.type = .ok self.proto_k_type ∧ Py.Plg.typeEnumName v.type = .ok self.proto_v_type) :
    MapEntryCompiler.betterproto_field_args fuel self = .ok (cfieldArgs c)
    ∧ MapEntryCompiler.field_type fuel self = .ok c.ctor := by
  unfold compileField at hc
  rw [hm] at hc
  simp only at hc
  split at hc
  · rename_i k v r hf
    obtain ⟨a1, a2⟩ := hk k v r hf
    unfold Py.Plg.typeEnumName at a1 a2
    split at hc
    · rename_i pk pv tk tv _ _ h3 h4
      rw [h3] at a1; rw [h4] at a2
      injection a1 with a1; injection a2 with a2
      cases hc
      refine ⟨?_, rfl⟩
      rw [map_field_args_eq, ← a1, ← a2]; rfl
    · cases hc
  · cases hc

/-! ### `annotation`, `get_field_string` -/

theorem bind_pair_id {α β : Type} (r : Res (α × β)) : (r.bind fun (a, b) => Res.ok (a, b)) = r := by
  cases r <;> rfl

/-- `FieldCompiler.annotation` as written: `py_type` (prefixed `builtins.` when it shadows), wrapped by the typing
    compiler's `list` for a repeated label, else by `optional` for `proto3_optional`, else bare -/
theorem annotation_eq (fuel : Nat) (self : Py.Plg.Self) (tc : Py.Plg.TC) :
    FieldCompiler.annotation fuel self tc
      = (FieldCompiler.py_type fuel self).bind fun py =>
          let py := if self.use_builtins = true then "builtins.".toList ++ py else py
          if self.proto_obj.label = Label.repeated then TypingCompiler.list fuel tc py
          else if self.proto_obj.proto3Optional = true then TypingCompiler.optional fuel tc py
          else .ok (py, tc) := by
  unfold FieldCompiler.annotation
  cases FieldCompiler.py_type fuel self with
  | raise e => rfl
  | diverge => rfl
  | ok py =>
    simp only [Res.bind, repeated_eq, optional_eq]
    by_cases h : self.proto_obj.label = Label.repeated
    · simp only [h, decide_true, if_true]; exact bind_pair_id _
    · simp only [h, decide_false, if_false, Bool.false_eq_true]
      cases self.proto_obj.proto3Optional
      · rfl
      · simp only [if_true]; exact bind_pair_id _

/-- the text of a typing-compiler wrapper around the model's annotation shape -/
def renderAnn (fuel : Nat) (tc : Py.Plg.TC) (ρ : PyT → Str) : Ann → Res (Str × Py.Plg.TC)
  | .plain t => .ok (ρ t, tc)
  | .list t => TypingCompiler.list fuel tc (ρ t)
  | .optional t => TypingCompiler.optional fuel tc (ρ t)
  | .dict k v => TypingCompiler.dict fuel tc (ρ k) (ρ v)

/-- … which is the model's `annOf`: whatever text `ρ py` the type reference machinery gives the inner type `py`,
    the annotation as written is the typing compiler's rendering of `annOf f py` (object that needs no `builtins.`) -/
theorem annotation_is_annOf (fuel : Nat) (self : Py.Plg.Self) (tc : Py.Plg.TC) (ρ : PyT → Str) (py : PyT)
    (hpy : FieldCompiler.py_type fuel self = .ok (ρ py)) (hb : self.use_builtins = false) :
    FieldCompiler.annotation fuel self tc = renderAnn fuel tc ρ (annOf self.proto_obj py) := by
  rw [annotation_eq, hpy]
  simp only [Res.bind, hb, Bool.false_eq_true, if_false]
  unfold annOf
  by_cases h : self.proto_obj.label = Label.repeated
  · simp only [h, if_true]; rfl
  · simp only [h, if_false]
    cases self.proto_obj.proto3Optional <;> rfl

theorem map_annotation_eq (fuel : Nat) (self : Py.Plg.Self) (tc : Py.Plg.TC) :
    MapEntryCompiler.annotation fuel self tc = TypingCompiler.dict fuel tc self.py_k_type self.py_v_type := by
  unfold MapEntryCompiler.annotation; exact bind_pair_id _

theorem joinStr_cons (sep x : Str) : ∀ r : List Str, Py.joinStr sep (x :: r) = x ++ (r.map (sep ++ ·)).flatten
  | [] => by simp [Py.joinStr]
  | y :: r => by
    rw [Py.joinStr, joinStr_cons sep y r]
    simp [List.append_assoc]

/-- one generated field line -/
def lineOf (pyName ann ctor : Str) (number : Nat) (args : List Str) : Str :=
  pyName ++ ": ".toList ++ ann ++ " = ".toList ++ "betterproto.".toList ++ ctor ++ "_field(".toList
    ++ (Nat.repr number).toList ++ (args.map (", ".toList ++ ·)).flatten ++ ")".toList

theorem field_args_text (args : List Str) :
    Py.joinStr ", ".toList (if (!args.isEmpty) = true then ["".toList] ++ args else []) = (args.map (", ".toList ++ ·)).flatten := by
  cases args with
  | nil => rfl
  | cons a r =>
    simp only [List.isEmpty_cons, Bool.not_false, if_true]
    show Py.joinStr _ ("".toList :: a :: r) = _
    rw [joinStr_cons]; rfl

/-- `FieldCompiler.get_field_string` as written (the returned text): the line
    `<py_name>: <annotation> = betterproto.<field_type>_field(<number>{, <arg>})` assembled from the properties above -/
theorem get_field_string_eq (fuel : Nat) (self : Py.Plg.Self) (tc tc' : Py.Plg.TC) (indent : Int) (a ctor : Str)
    (args : List Str) (ha : FieldCompiler.annotation fuel self tc = .ok (a, tc'))
    (hargs : FieldCompiler.betterproto_field_args fuel self = .ok args)
    (hct : FieldCompiler.field_type fuel self = .ok ctor) :
    FieldCompiler.get_field_string fuel self tc indent
      = .ok (lineOf (Naming.pythonizeFieldName self.proto_obj.name) a ctor self.proto_obj.number args, tc') := by
  unfold FieldCompiler.get_field_string
  rw [(py_name_eq fuel self).1, ha, hargs, hct]
  simp only [Res.bind]
  have h2 : (if (!args.isEmpty) = true then Res.ok (["".toList] ++ args) else Res.ok ([] : List Str))
      = Res.ok (if (!args.isEmpty) = true then ["".toList] ++ args else []) := by split <;> rfl
  rw [h2]
  simp only [Res.bind, field_args_text]
  unfold lineOf Py.Plg.strOfInt Py.Plg.fNumber
  simp only [List.append_assoc]

end Bp.SrcTiePlugin
