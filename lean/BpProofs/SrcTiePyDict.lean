import BpProofs.Gen.SrcPyDict
import BpProofs.SrcTieJson
/-
  THE TIE BETWEEN THE TRANSLATED LOOP BODY OF `Message.to_pydict` AND THE HAND-WRITTEN MODEL.

  `Bp.Src.to_pydict_field` (BpProofs/Gen/SrcPyDict.lean) is regenerated from the Python AST of the
  body of the field loop of `Message.to_pydict` on every run.  With `enc := toPyDict S cs incl`
  (the recursive `to_pydict` of the model), one iteration as written raises exactly when the model's
  `toPyDictSlot S cs incl f hid sel v` is an error (the same error), leaves the output dict as it is
  when it is `ok none`, and stores exactly the model's object under the model's key
  `jsonKey cs f.name` when it is `ok (some j)` — for every field descriptor, both casings, every
  flag combination and every raw slot value `v` inside the decidable guard `dynOkJ f v` of the
  `to_dict` tie (the value has a Python type the descriptor allows; BpProofs/SrcTieJson.lean) and,
  for a slot that reads as the field's default, the guard `DefaultOkP` (see there).
  Also: the bodies of `to_json` / `from_json` are the model's `toJson` / `fromJson`.
-/
set_option linter.unusedSimpArgs false
set_option linter.unusedVariables false
namespace Bp.SrcTiePyDict
open Bp Bp.Py Gen Bp.SrcTieJson

/-- what one iteration does with the model's answer for the field -/
def putR (output : JDict) (k : JKey) (r : R (Option PVal)) : Res JDict :=
  (ofR r).bind fun o => .ok (putJ output k o)

@[simp] theorem putR_ok (o : JDict) (k : JKey) (x : Option PVal) : putR o k (.ok x) = .ok (putJ o k x) := rfl
@[simp] theorem putR_err (o : JDict) (k : JKey) (e : PyErr) : putR o k (.error e : R (Option PVal)) = .raise e := rfl
@[simp] theorem ofR_ok {α} (a : α) : ofR (Except.ok a : R α) = .ok a := rfl
@[simp] theorem ofR_err {α} (e : PyErr) : ofR (Except.error e : R α) = .raise e := rfl

theorem ofR_bind {α β} (r : R α) (g : α → R β) : ofR (r.bind g) = (ofR r).bind fun a => ofR (g a) := by
  cases r <;> rfl

/-! ### the model's recursions through `toPyDict` -/

theorem toPyDict_msg (S : Schema) (cs : KeyCase) (incl : Bool) (c : Nat) (sl : List Val) (ow : Bool)
    (unk : Bytes) (cur : List (Option Nat)) :
    toPyDict S cs incl (.msg c sl ow unk cur)
      = (toPyDictKVs S cs incl (fieldsOf S c) cur 0 sl).bind fun kvs => .ok (mkObj kvs) := by
  rw [toPyDict]

theorem toPyDict_nonmsg (S : Schema) (cs : KeyCase) (incl : Bool) (v : Val) (h : isMsgVal v = false) :
    toPyDict S cs incl v = .error .attr := by
  cases v <;> first | (simp [isMsgVal] at h; done) | (rw [toPyDict]; intros; contradiction)

/-- `x.to_pydict(...)` as written (AttributeError on a non-message) is the model's `toPyDict` -/
theorem callToPyDict_eq (S : Schema) (cs : KeyCase) (incl : Bool) (v : Val) :
    callToPyDict (toPyDict S cs incl) v = ofR (toPyDict S cs incl v) := by
  unfold callToPyDict
  by_cases h : isMsgVal v = true
  · rw [if_pos h]
  · rw [if_neg h, toPyDict_nonmsg S cs incl v (by simpa using h)]; rfl

theorem toPyDictList_cons (S : Schema) (cs : KeyCase) (incl : Bool) (x : Val) (xs : List Val) :
    toPyDictList S cs incl (x :: xs)
      = (toPyDict S cs incl x).bind fun j => (toPyDictList S cs incl xs).bind fun js => .ok (j :: js) := by
  cases x <;> first
    | (rw [toPyDictList, toPyDict_msg])
    | (rw [toPyDictList, toPyDict_nonmsg _ _ _ _ rfl]; all_goals (intros; contradiction))

/-- the list comprehension `[i.to_pydict(...) for i in value]` -/
theorem mapM_callToPyDict (S : Schema) (cs : KeyCase) (incl : Bool) : ∀ xs : List Val,
    Py.mapM (fun i => (callToPyDict (toPyDict S cs incl) i).bind fun t => Res.ok t) xs
      = ofR (toPyDictList S cs incl xs)
  | [] => by rw [toPyDictList]; rfl
  | x :: xs => by
    rw [Py.mapM, toPyDictList_cons, callToPyDict_eq, mapM_callToPyDict S cs incl xs]
    cases toPyDict S cs incl x with
    | error e => rfl
    | ok j =>
      cases toPyDictList S cs incl xs with
      | error e => rfl
      | ok js => rfl

/-- what `to_pydict` does to one map value -/
def mapValP (S : Schema) (cs : KeyCase) (incl : Bool) (x : Val) : R PVal :=
  if isMsgVal x then toPyDict S cs incl x else .ok (rawJ x)

theorem toPyDictMapVals_cons (S : Schema) (cs : KeyCase) (incl : Bool) (x : Val) (xs : List Val) :
    toPyDictMapVals S cs incl (x :: xs)
      = (mapValP S cs incl x).bind fun j => (toPyDictMapVals S cs incl xs).bind fun js => .ok (j :: js) := by
  cases x <;> first
    | (rw [toPyDictMapVals]; simp [mapValP, isMsgVal, toPyDict_msg]; done)
    | (rw [toPyDictMapVals]; · simp [mapValP, isMsgVal]
       all_goals (intros; contradiction))

/-! ### one iteration on an attribute value -/

theorem toPyDictSlot_leaf (S : Schema) (cs : KeyCase) (incl : Bool) (f : FieldD) (hid sel : Bool) (v : Val)
    (h : isLeafVal v = true) :
    toPyDictSlot S cs incl f hid sel v
      = if hid then toPyDictDefault S f sel incl else toPyDictPlain S f sel incl v := by
  cases v <;> first | (simp [isLeafVal] at h; done) | (rw [toPyDictSlot]; all_goals (intros; contradiction))

theorem toPyDictSlot_ph (S : Schema) (cs : KeyCase) (incl : Bool) (f : FieldD) (hid sel : Bool) :
    toPyDictSlot S cs incl f hid sel .ph = toPyDictDefault S f sel incl := by
  rw [toPyDictSlot]

macro "psrc_unfold" : tactic => `(tactic| simp only [Src.to_pydict_field, defaultIsList, casedName, metaProtoType,
    metaOptional, metaWraps, clsByField, isDatetime, isTimedelta, isNone, neDatetimeZero, neTimedeltaZero,
    asIs, arrJ, objJ, serializedOnWire, eqFieldDefault, iterItems, dictUnpack, res_bind_ok, res_bind_raise,
    toPyDictPlain, Bool.false_eq_true, if_false, if_true, putR_ok, putR_err, ofR_ok, ofR_err])

theorem ite_putR (c : Bool) (o : JDict) (k : JKey) (j : PVal) :
    (if c = true then Res.ok (setItem o k j) else Res.ok o)
      = putR o k (.ok (if c = true then some j else Option.none)) := by
  cases c <;> rfl

set_option hygiene false in
macro "pleaf_case" : tactic => `(tactic| (
  rw [toPyDictSlot_leaf _ _ _ _ _ _ _ rfl]
  simp only [dynOkJ, leafOkJ] at hok
  psrc_unfold
  by_cases hm : (f.ty == PType.message) = true
  · by_cases hw : f.wraps.isSome = true <;> by_cases hr : f.repeated = true <;>
      simp_all [rawJ, ite_putR] <;> (try split) <;> simp_all [putR, putJ]
  · by_cases hmap : (f.ty == PType.map) = true
    · simp_all
    · simp only [hm, hmap, if_false, Bool.false_eq_true]
      split <;> simp_all [putR, putJ]))

theorem field_leaf (S : Schema) (cs : KeyCase) (incl : Bool) (f : FieldD) (sel : Bool) (v : Val) (out : JDict)
    (hl : isLeafVal v = true) (hok : dynOkJ f v = true) :
    Src.to_pydict_field S (toPyDict S cs incl) cs incl f (.value v) sel out
      = putR out (jsonKey cs f.name) (toPyDictSlot S cs incl f false sel v) := by
  cases v with
  | ph => simp [isLeafVal] at hl
  | list xs => simp [isLeafVal] at hl
  | dict ks vs => simp [isLeafVal] at hl
  | msg c sl ow unk cur => simp [isLeafVal] at hl
  | int i => pleaf_case
  | none => pleaf_case
  | bool b => pleaf_case
  | f32 b => pleaf_case
  | f64 b => pleaf_case
  | str s => pleaf_case
  | byt b => pleaf_case
  | ts us => pleaf_case
  | dur us => pleaf_case

theorem field_list (S : Schema) (cs : KeyCase) (incl : Bool) (f : FieldD) (sel : Bool) (xs : List Val)
    (out : JDict) (hok : dynOkJ f (.list xs) = true) :
    Src.to_pydict_field S (toPyDict S cs incl) cs incl f (.value (.list xs)) sel out
      = putR out (jsonKey cs f.name) (toPyDictSlot S cs incl f false sel (.list xs)) := by
  rw [toPyDictSlot]
  simp only [dynOkJ, Bool.and_eq_true, bne_iff_ne, ne_eq, beq_iff_eq] at hok
  obtain ⟨hr, hmap⟩ := hok
  have hmap' : (f.ty == PType.map) = false := by simpa using hmap
  psrc_unfold
  simp only [hr, hmap', if_true, if_false, Bool.false_eq_true, mapM_callToPyDict]
  by_cases hm : (f.ty == PType.message) = true
  · by_cases hw : f.wraps.isSome = true
    · simp [hm, hw, putR, putJ]
    · simp only [hm, hw, if_true, if_false, Bool.false_eq_true]
      cases toPyDictList S cs incl xs with
      | error e => rfl
      | ok items =>
        simp only [ofR_ok, res_bind_ok, Except.bind, bind]
        exact ite_putR _ _ _ _
  · simp only [hm, if_false, Bool.false_eq_true]
    exact ite_putR _ _ _ _

theorem field_msg (S : Schema) (cs : KeyCase) (incl : Bool) (f : FieldD) (sel : Bool) (c : Nat)
    (sl : List Val) (ow : Bool) (unk : Bytes) (cur : List (Option Nat)) (out : JDict)
    (hok : dynOkJ f (.msg c sl ow unk cur) = true) :
    Src.to_pydict_field S (toPyDict S cs incl) cs incl f (.value (.msg c sl ow unk cur)) sel out
      = putR out (jsonKey cs f.name) (toPyDictSlot S cs incl f false sel (.msg c sl ow unk cur)) := by
  rw [toPyDictSlot]
  have hok' : (f.ty == PType.message && f.wraps.isNone && !f.repeated) = true := hok
  simp only [dynOkJ, Bool.and_eq_true, Bool.not_eq_true', beq_iff_eq] at hok
  obtain ⟨⟨hm, hw⟩, hr⟩ := hok
  have hw' : f.wraps.isSome = false := by cases h : f.wraps <;> simp_all
  psrc_unfold
  simp only [hok', hm, hw', hr, beq_self_eq_true, if_true, if_false, Bool.false_eq_true, callToPyDict_eq, toPyDict_msg]
  cases ow <;> cases incl <;> cases sel <;>
    simp <;> (try split) <;>
    first
      | rfl
      | (cases toPyDictKVs S cs _ (fieldsOf S c) cur 0 sl <;> rfl)
      | (simp_all; done)
      | (simp_all; cases toPyDictKVs S cs _ (fieldsOf S c) cur 0 sl <;> rfl)

/-! ### the loop of the map branch: `for k in value: if hasattr(value[k], "to_pydict"): output_map[k] = …` -/

/-- the converted items of a map field, in order; the first conversion that raises ends it -/
def convItemsP (S : Schema) (cs : KeyCase) (incl : Bool) : List (Val × Val) → R (List (JKey × PVal))
  | [] => .ok []
  | kv :: rest =>
    (mapValP S cs incl kv.2).bind fun j => (convItemsP S cs incl rest).bind fun js => .ok ((keyJ kv.1, j) :: js)

theorem convItemsP_keys (S : Schema) (cs : KeyCase) (incl : Bool) : ∀ (kvs : List (Val × Val)) (js : List (JKey × PVal)),
    convItemsP S cs incl kvs = .ok js → js.map (·.1) = kvs.map fun p => keyJ p.1
  | [], js, h => by simp [convItemsP] at h; subst h; rfl
  | kv :: rest, js, h => by
    rw [convItemsP] at h
    cases hj : mapValP S cs incl kv.2 with
    | error e => rw [hj] at h; cases h
    | ok j =>
      cases hr : convItemsP S cs incl rest with
      | error e => rw [hj, hr] at h; cases h
      | ok js' =>
        rw [hj, hr] at h
        have : js = (keyJ kv.1, j) :: js' := by injection h with h; exact h.symm
        subst this
        simp [convItemsP_keys S cs incl rest js' hr]

theorem map_loopP (S : Schema) (cs : KeyCase) (incl : Bool) (ks vs : List Val)
    (hn : ((ks.zip vs).map fun p => keyJ p.1).Nodup) :
    ∀ (suf pre : List (Val × Val)) (preC : JDict), ks.zip vs = pre ++ suf →
      preC.map (·.1) = pre.map (fun p => keyJ p.1) →
      Src.to_pydict_field.loop1 S (toPyDict S cs incl) cs incl (.dict ks vs) (suf.map (·.1))
        (preC ++ suf.map rawItem)
      = (ofR (convItemsP S cs incl suf)).bind fun sufC => .ok (preC ++ sufC)
  | [], pre, preC, h, hk => by simp [Src.to_pydict_field.loop1, convItemsP]
  | kv :: suf, pre, preC, h, hk => by
    obtain ⟨k, v⟩ := kv
    have hn' := hn
    rw [h, List.map_append, List.nodup_append] at hn'
    obtain ⟨hnp, hns, hdis⟩ := hn'
    have hkpre : keyJ k ∉ pre.map (fun p => keyJ p.1) := fun hm => hdis _ hm _ (by simp) rfl
    have hksuf : keyJ k ∉ suf.map (fun p => keyJ p.1) := by
      simp only [List.map_cons, List.nodup_cons] at hns; exact hns.1
    have hget : getItem (.dict ks vs) k = .ok v := by
      simp only [getItem, lookupKey_zip, h, find_mid (keyJ k) pre suf (k, v) rfl hkpre, Option.map_some]
    have hA : keyJ k ∉ preC.map (·.1) := by rw [hk]; exact hkpre
    have hB : keyJ k ∉ (suf.map rawItem).map (·.1) := by
      simpa [rawItem, Function.comp_def] using hksuf
    simp only [List.map_cons, Src.to_pydict_field.loop1, hget, res_bind_ok, hasToPyDict, setItemV, callToPyDict_eq, convItemsP]
    by_cases hm : isMsgVal v = true
    · rw [if_pos hm]
      have hmv : mapValP S cs incl v = toPyDict S cs incl v := by simp [mapValP, hm]
      rw [hmv]
      cases hj : toPyDict S cs incl v with
      | error e => rfl
      | ok j =>
        simp only [ofR_ok, res_bind_ok]
        have : (rawItem (k, v)) = (keyJ k, rawJ v) := rfl
        rw [this, setItem_mid _ _ _ _ _ hA hB]
        have ih := map_loopP S cs incl ks vs hn suf (pre ++ [(k, v)]) (preC ++ [(keyJ k, j)]) (by rw [h]; simp)
          (by simp [hk])
        simp only [List.append_assoc, List.singleton_append] at ih
        rw [ih]
        cases convItemsP S cs incl suf <;> simp [Except.bind, bind]
    · rw [if_neg hm]
      have hmv : mapValP S cs incl v = .ok (rawJ v) := by simp [mapValP, hm]
      rw [hmv]
      have ih := map_loopP S cs incl ks vs hn suf (pre ++ [(k, v)]) (preC ++ [(keyJ k, rawJ v)]) (by rw [h]; simp)
        (by simp [hk])
      simp only [List.append_assoc, List.singleton_append] at ih
      have : (rawItem (k, v)) = (keyJ k, rawJ v) := rfl
      rw [this, ih]
      cases convItemsP S cs incl suf <;> simp [Except.bind, bind]

theorem convItemsP_zip (S : Schema) (cs : KeyCase) (incl : Bool) : ∀ (ks vs : List Val), ks.length = vs.length →
    convItemsP S cs incl (ks.zip vs)
      = (toPyDictMapVals S cs incl vs).bind fun pvs => .ok ((ks.map keyJ).zip pvs)
  | [], [], _ => by rw [toPyDictMapVals]; rfl
  | [], _ :: _, h => by simp at h
  | _ :: _, [], h => by simp at h
  | k :: ks, v :: vs, h => by
    have h' : ks.length = vs.length := by simpa using h
    rw [List.zip_cons_cons, convItemsP, toPyDictMapVals_cons, convItemsP_zip S cs incl ks vs h']
    cases mapValP S cs incl v with
    | error e => rfl
    | ok j =>
      cases toPyDictMapVals S cs incl vs with
      | error e => rfl
      | ok js => rfl

theorem toPyDictMapVals_length (S : Schema) (cs : KeyCase) (incl : Bool) : ∀ (vs : List Val) (pvs : List PVal),
    toPyDictMapVals S cs incl vs = .ok pvs → pvs.length = vs.length
  | [], pvs, h => by rw [toPyDictMapVals] at h; injection h with h; subst h; rfl
  | v :: vs, pvs, h => by
    rw [toPyDictMapVals_cons] at h
    cases hj : mapValP S cs incl v with
    | error e => rw [hj] at h; cases h
    | ok j =>
      cases hr : toPyDictMapVals S cs incl vs with
      | error e => rw [hj, hr] at h; cases h
      | ok js =>
        rw [hj, hr] at h
        have : pvs = j :: js := by injection h with h; exact h.symm
        subst this
        simp [toPyDictMapVals_length S cs incl vs js hr]

theorem mkObj_zip (ks : List JKey) (pvs : List PVal) (h : ks.length = pvs.length) :
    mkObj (ks.zip pvs) = .obj ks pvs := by
  unfold mkObj
  rw [List.map_fst_zip (by omega), List.map_snd_zip (by omega)]

theorem field_dict (S : Schema) (cs : KeyCase) (incl : Bool) (f : FieldD) (sel : Bool) (ks vs : List Val)
    (out : JDict) (hok : dynOkJ f (.dict ks vs) = true) :
    Src.to_pydict_field S (toPyDict S cs incl) cs incl f (.value (.dict ks vs)) sel out
      = putR out (jsonKey cs f.name) (toPyDictSlot S cs incl f false sel (.dict ks vs)) := by
  rw [toPyDictSlot]
  simp only [dynOkJ, Bool.and_eq_true, beq_iff_eq, decide_eq_true_eq] at hok
  obtain ⟨⟨hmap, hlen⟩, hn⟩ := hok
  have hlen' : ks.length = vs.length := by simpa using hlen
  have hm : (f.ty == PType.message) = false := by rw [hmap]; rfl
  have hmap' : (f.ty == PType.map) = true := by rw [hmap]; rfl
  have hl := map_loopP S cs incl ks vs hn (ks.zip vs) [] [] rfl rfl
  simp only [List.nil_append, zip_fst ks vs hlen'] at hl
  have hraw : (ks.zip vs).map (fun kv => (keyJ kv.1, rawJ kv.2)) = (ks.zip vs).map rawItem := rfl
  psrc_unfold
  simp only [hm, hmap', if_true, if_false, Bool.false_eq_true, hraw, hl, truthyVal, convItemsP_zip S cs incl ks vs hlen']
  cases hp : toPyDictMapVals S cs incl vs with
  | error e => rfl
  | ok pvs =>
    have hpl := toPyDictMapVals_length S cs incl vs pvs hp
    simp only [Except.bind, bind, ofR_ok, res_bind_ok, mkObj_zip (ks.map keyJ) pvs (by simp [hpl, hlen'])]
    exact ite_putR _ _ _ _

/-- **one iteration on an attribute VALUE** (anything `getattr` can return: never PLACEHOLDER) -/
theorem field_value (S : Schema) (cs : KeyCase) (incl : Bool) (f : FieldD) (sel : Bool) (v : Val) (out : JDict)
    (hph : v ≠ .ph) (hok : dynOkJ f v = true) :
    Src.to_pydict_field S (toPyDict S cs incl) cs incl f (.value v) sel out
      = putR out (jsonKey cs f.name) (toPyDictSlot S cs incl f false sel v) := by
  cases v with
  | ph => exact absurd rfl hph
  | list xs => exact field_list S cs incl f sel xs out hok
  | dict ks vs => exact field_dict S cs incl f sel ks vs out hok
  | msg c sl ow unk cur => exact field_msg S cs incl f sel c sl ow unk cur out hok
  | _ => exact field_leaf S cs incl f sel _ out rfl hok

/-! ### a slot that reads as the field's default (AttributeError of an unselected oneof member, PLACEHOLDER) -/

/-- The guard for a slot that reads as the default.  The source goes on with
    `self._get_field_default(field_name)` exactly as with any other value; the model has a separate
    function `toPyDictDefault`, which differs from that in one place: the default of a plain singular
    sub-message field is a fresh instance — with `include_default_values=True` the source expands ITS
    defaults recursively, the model does not ("not modelled", `raw ph`); so `incl = false` is required
    there, and that the fresh instance compares equal to the default and has an empty pydict (both
    follow from the schema guards: `defaultOkP_of_schema`). -/
def DefaultOkP (S : Schema) (cs : KeyCase) (incl : Bool) (f : FieldD) : Prop :=
  ∀ c, f.defKind = .msg c →
    incl = false ∧ eqDefault S (.msg c) (fresh S c) = true ∧ toPyDict S cs false (fresh S c) = .ok (.obj [] [])

theorem dynOkJ_defaultP (S : Schema) (f : FieldD) (h : (f.repeated && f.ty == .map) = false) :
    dynOkJ f (defaultOf S f) = true := dynOkJ_default S f h

/-- the model's separate default function is its general one on the default value -/
theorem toPyDictSlot_default (S : Schema) (cs : KeyCase) (incl : Bool) (f : FieldD) (sel : Bool)
    (hrm : (f.repeated && f.ty == .map) = false) (hd : DefaultOkP S cs incl f) :
    toPyDictSlot S cs incl f false sel (defaultOf S f) = toPyDictDefault S f sel incl := by
  unfold defaultOf toPyDictDefault
  rcases defKind_cases f with ⟨hr, hk⟩ | ⟨hr, ht, hk⟩ | ⟨hr, ht, ho, hk⟩ | ⟨hr, ht, ho, hw, hk⟩ | ⟨hr, ht, htm, ho, hw, hk⟩
  · rw [hk]
    simp only [defaultOfKind]
    rw [toPyDictSlot]
    have hmap : (f.ty == PType.map) = false := by simpa [hr] using hrm
    have hl : toPyDictList S cs incl [] = .ok [] := by rw [toPyDictList]
    simp only [hr, hmap, hk, hl, Bool.false_eq_true, if_false, if_true, rawJ_nil, eqDefault, List.isEmpty_nil, Bool.not_true,
      Bool.false_or, Bool.and_true, beq_self_eq_true, Bool.not_false, Bool.true_and]
    by_cases hm : (f.ty == PType.message) = true
    · simp only [hm, if_true]
      by_cases hw : f.wraps.isSome = true
      · simp [hw]
      · simp [hw, Except.bind, bind]
    · simp only [hm, if_false, Bool.false_eq_true]
  · rw [hk]
    simp only [defaultOfKind]
    rw [toPyDictSlot]
    have : toPyDictMapVals S cs incl [] = .ok [] := by rw [toPyDictMapVals]
    simp [ht, this, Except.bind, bind]
  · rw [hk]
    simp only [defaultOfKind]
    rw [toPyDictSlot_leaf _ _ _ _ _ _ _ rfl]; rfl
  · rw [hk]
    cases hkind : f.kind with
    | timestamp => simp only [msgKindDef, defaultOfKind]; rw [toPyDictSlot_leaf _ _ _ _ _ _ _ rfl]; rfl
    | duration => simp only [msgKindDef, defaultOfKind]; rw [toPyDictSlot_leaf _ _ _ _ _ _ _ rfl]; rfl
    | user c =>
      obtain ⟨hi, he, hf⟩ := hd c (by rw [hk, hkind]; rfl)
      subst hi
      simp only [msgKindDef, defaultOfKind]
      have hfr : fresh S c = .msg c ((fieldsOf S c).map fun f => if f.optional then Val.none else Val.ph)
          false [] (List.replicate (groupsOf S c) Option.none) := rfl
      have he' := he
      rw [hfr] at he' hf ⊢
      rw [toPyDictSlot]
      rw [toPyDict_msg] at hf
      have hkv : toPyDictKVs S cs false (fieldsOf S c) (List.replicate (groupsOf S c) Option.none) 0
          ((fieldsOf S c).map fun f => if f.optional then Val.none else Val.ph) = .ok [] := by
        cases hq : toPyDictKVs S cs false (fieldsOf S c) (List.replicate (groupsOf S c) Option.none) 0
            ((fieldsOf S c).map fun f => if f.optional then Val.none else Val.ph) with
        | error e => rw [hq] at hf; cases hf
        | ok kvs =>
          rw [hq] at hf
          have : mkObj kvs = .obj [] [] := by injection hf
          unfold mkObj at this
          injection this with h1 h2
          cases kvs with
          | nil => rfl
          | cons a b => simp at h1
      simp only [ht, hw, hr, ho, hk, hkind, msgKindDef, he', hkv, beq_self_eq_true, Option.isNone_none, Bool.not_false,
        Bool.and_self, if_true, Bool.false_eq_true, if_false, Bool.false_or, Bool.not_true, Bool.or_false]
      cases sel <;> simp [Except.bind, bind, mkObj]
  · rw [hk]
    cases hty : f.ty <;> simp only [scalarDef, defaultOfKind] <;>
      first
      | exact absurd hty ht
      | exact absurd hty htm
      | (rw [toPyDictSlot_leaf _ _ _ _ _ _ _ rfl]; rfl)

theorem toPyDictSlot_hid (S : Schema) (cs : KeyCase) (incl : Bool) (f : FieldD) (sel : Bool) (v : Val) :
    toPyDictSlot S cs incl f true sel v = toPyDictDefault S f sel incl := by
  cases v <;> first
    | (rw [toPyDictSlot_leaf _ _ _ _ _ _ _ rfl]; rfl)
    | (rw [toPyDictSlot]; try rfl)

/-- the value the body goes on with: the attribute value, or the default after AttributeError -/
def gotValue (S : Schema) (f : FieldD) : Got → Val
  | Got.attrError => getFieldDefault S f
  | Got.value v => v

/-- the translated body only looks at `got` through the value it binds -/
theorem field_got (S : Schema) (enc : Val → R PVal) (cs : KeyCase) (incl : Bool) (f : FieldD) (g : Got)
    (sel : Bool) (out : JDict) :
    Src.to_pydict_field S enc cs incl f g sel out
      = Src.to_pydict_field S enc cs incl f (.value (gotValue S f g)) sel out := by
  cases g <;> rfl

theorem gotValue_default (S : Schema) (f : FieldD) (hid : Bool) (v : Val) (h : readsDefault hid v = true) :
    gotValue S f (getattrField S f hid v) = defaultOf S f := by
  cases hid with
  | true => rfl
  | false => cases v <;> first | rfl | simp [readsDefault] at h

/-- a repeated map field (no such descriptor exists): `{**[]}` is a TypeError, on both sides -/
theorem field_default_repmap (S : Schema) (cs : KeyCase) (incl : Bool) (f : FieldD) (sel : Bool) (out : JDict)
    (h : (f.repeated && f.ty == .map) = true) :
    Src.to_pydict_field S (toPyDict S cs incl) cs incl f (.value (defaultOf S f)) sel out
      = putR out (jsonKey cs f.name) (toPyDictDefault S f sel incl) := by
  simp only [Bool.and_eq_true, beq_iff_eq] at h
  obtain ⟨hr, hm⟩ := h
  have hk : f.defKind = .list := by simp [FieldD.defKind, hr]
  unfold defaultOf toPyDictDefault
  rw [hk]
  simp only [defaultOfKind]
  psrc_unfold
  simp [hm]

/-- **`Src.to_pydict_field` is `toPyDictSlot`**: one iteration of the field loop of `Message.to_pydict`
    as written, run on the outcome of `getattr` for the raw slot `v`, raises exactly the model's error,
    leaves the output dict as it is when the model says `none`, and stores the model's object under
    the model's key when it says `some j` -/
theorem to_pydict_field_eq (S : Schema) (cs : KeyCase) (incl : Bool) (f : FieldD) (hid sel : Bool) (v : Val)
    (out : JDict) (hok : readsDefault hid v = false → dynOkJ f v = true)
    (hd : readsDefault hid v = true → DefaultOkP S cs incl f) :
    Src.to_pydict_field S (toPyDict S cs incl) cs incl f (getattrField S f hid v) sel out
      = putR out (jsonKey cs f.name) (toPyDictSlot S cs incl f hid sel v) := by
  by_cases h : readsDefault hid v = true
  · have hD := hd h
    have hslot : toPyDictSlot S cs incl f hid sel v = toPyDictDefault S f sel incl := by
      cases hid with
      | true => exact toPyDictSlot_hid S cs incl f sel v
      | false => cases v <;> first | (simp [readsDefault] at h; done) | (rw [toPyDictSlot_ph])
    rw [field_got, gotValue_default S f hid v h, hslot]
    by_cases hrm : (f.repeated && f.ty == .map) = true
    · exact field_default_repmap S cs incl f sel out hrm
    · have hrm' : (f.repeated && f.ty == .map) = false := by simpa using hrm
      rw [field_value S cs incl f sel _ out (Bp.SrcTieJson.default_ne_ph S f) (dynOkJ_default S f hrm'),
        toPyDictSlot_default S cs incl f sel hrm' hD]
  · have hh : hid = false := by cases hid <;> first | rfl | (cases v <;> simp [readsDefault] at h)
    have hph : v ≠ .ph := by intro e; subst e; simp [readsDefault] at h
    subst hh
    have hg : getattrField S f false v = .value v := by cases v <;> first | rfl | exact absurd rfl hph
    rw [hg]
    exact field_value S cs incl f sel v out hph (hok (by simpa using h))

/-! ### the default guard follows from the schema guards of C04 -/

/-- a field whose slot is unset, not selected, writes nothing without `include_default_values`
    (for a repeated field: unless it is a repeated wrapper / a repeated map, which `fieldJsonOk` excludes) -/
theorem toPyDictDefault_unsel (S : Schema) (f : FieldD) (hj : fieldJsonOk f = true) :
    toPyDictDefault S f false false = .ok Option.none := by
  obtain ⟨name, num, ty, rep, opt, grp, wraps, kind, mk, mv, mvk, er⟩ := f
  unfold fieldJsonOk at hj
  cases rep <;> cases ty <;> cases wraps <;> cases kind <;> cases opt <;>
    simp_all [toPyDictDefault, FieldD.defKind, msgKindDef, scalarDef, toPyDictPlain, defaultOfKind, eqDefault,
      f32IsZero, f64IsZero]

/-- an unset slot of a fresh instance writes nothing -/
theorem fresh_slot_noneP (S : Schema) (cs : KeyCase) (f : FieldD) (hj : fieldJsonOk f = true) (hid : Bool) :
    toPyDictSlot S cs false f hid false (if f.optional then Val.none else Val.ph) = .ok Option.none := by
  have hdef := toPyDictDefault_unsel S f hj
  by_cases ho : f.optional = true
  · rw [if_pos ho, toPyDictSlot_leaf _ _ _ _ _ _ _ rfl]
    cases hid with
    | true => simpa using hdef
    | false =>
      simp only [Bool.false_eq_true, if_false]
      unfold fieldJsonOk at hj
      have hr : f.repeated = false := by cases h : f.repeated <;> simp_all
      have hk : f.defKind = .none := by
        unfold FieldD.defKind
        by_cases hmap : (f.ty == PType.map) = true <;> simp_all
      unfold toPyDictPlain
      rw [hk]
      by_cases hm : (f.ty == PType.message) = true
      · cases hw : f.wraps <;> simp_all
      · by_cases hmap : (f.ty == PType.map) = true <;> simp_all [eqDefault]
  · rw [if_neg ho, toPyDictSlot_ph]; exact hdef

theorem fresh_kvsP (S : Schema) (cs : KeyCase) (n : Nat) (fs : List FieldD)
    (hj : ∀ f ∈ fs, fieldJsonOk f = true) :
    ∀ (suf pre : List FieldD), fs = pre ++ suf →
      toPyDictKVs S cs false fs (List.replicate n Option.none) pre.length
        (suf.map fun f => if f.optional then Val.none else Val.ph) = .ok []
  | [], pre, _ => by rw [List.map_nil, toPyDictKVs]
  | f :: suf, pre, h => by
    have hf : fs[pre.length]? = some f := by rw [h]; simp
    rw [List.map_cons, toPyDictKVs, hf]
    simp only [selected_none, fresh_slot_noneP S cs f (hj f (by rw [h]; simp))]
    have := fresh_kvsP S cs n fs hj suf (pre ++ [f]) (by rw [h]; simp)
    simp only [List.length_append, List.length_cons, List.length_nil, Nat.zero_add] at this
    rw [this]; rfl

/-- **a fresh instance has the empty pydict** (without `include_default_values`) -/
theorem toPyDict_fresh (S : Schema) (cs : KeyCase) (c : Nat)
    (hj : ∀ f ∈ fieldsOf S c, fieldJsonOk f = true) : toPyDict S cs false (fresh S c) = .ok (.obj [] []) := by
  unfold fresh
  rw [toPyDict_msg]
  have := fresh_kvsP S cs (groupsOf S c) (fieldsOf S c) hj (fieldsOf S c) [] rfl
  simp only [List.length_nil] at this
  rw [this]; rfl

/-- `DefaultOkP` holds for every field of a schema that passes `fieldJsonOk`, when default values are not asked for -/
theorem defaultOkP_of_schema (S : Schema) (cs : KeyCase) (f : FieldD) (hS : SchemaJsonOk S) : DefaultOkP S cs false f :=
  fun c _ => ⟨rfl, eqDefault_fresh S c (wfSchemaOpt_of S hS), toPyDict_fresh S cs c (hS c)⟩

/-! ### the whole field loop: the translated body once per field, in `meta_by_field_name` order -/

/-- `for field_name, meta in self._betterproto.meta_by_field_name.items(): <translated body>`
    (hand-written fold; the body is the translated `Src.to_pydict_field`) -/
def srcLoopP (S : Schema) (cs : KeyCase) (incl : Bool) (fs : List FieldD) (cur : List (Option Nat)) :
    Nat → List Val → JDict → Res JDict
  | _, [], out => .ok out
  | idx, v :: vs, out =>
    match fs[idx]? with
    | Option.none => .ok out
    | some f =>
      (Src.to_pydict_field S (toPyDict S cs incl) cs incl f (getattrField S f (hidden f idx cur) v)
        (selectedInGroup f idx cur) out).bind fun out' => srcLoopP S cs incl fs cur (idx + 1) vs out'

/-- the guards of the tie, slot by slot -/
def SlotsTieOkP (S : Schema) (cs : KeyCase) (incl : Bool) (fs : List FieldD) (cur : List (Option Nat)) :
    Nat → List Val → Prop
  | _, [] => True
  | idx, v :: vs =>
    (∀ f, fs[idx]? = some f →
      (readsDefault (hidden f idx cur) v = false → dynOkJ f v = true) ∧
      (readsDefault (hidden f idx cur) v = true → DefaultOkP S cs incl f)) ∧
    SlotsTieOkP S cs incl fs cur (idx + 1) vs

/-- **the field loop of `to_pydict`, run with the body as written, builds the model's `toPyDictKVs`**
    (or raises the model's error) -/
theorem srcLoopP_eq (S : Schema) (cs : KeyCase) (incl : Bool) (fs : List FieldD) (cur : List (Option Nat))
    (hinj : KeysInj cs fs) :
    ∀ (vs : List Val) (idx : Nat) (out : JDict), SlotsTieOkP S cs incl fs cur idx vs →
      (∀ j fj, idx ≤ j → fs[j]? = some fj → jsonKey cs fj.name ∉ out.map (·.1)) →
      srcLoopP S cs incl fs cur idx vs out
        = (ofR (toPyDictKVs S cs incl fs cur idx vs)).bind fun kvs => .ok (out ++ kvs)
  | [], idx, out, _, _ => by rw [srcLoopP, toPyDictKVs]; simp
  | v :: vs, idx, out, hok, hout => by
    rw [srcLoopP, toPyDictKVs]
    cases hf : fs[idx]? with
    | none => simp
    | some f =>
      obtain ⟨h1, h2⟩ := hok
      obtain ⟨hv, hd⟩ := h1 f hf
      simp only
      rw [to_pydict_field_eq S cs incl f _ _ v out hv hd]
      cases hs : toPyDictSlot S cs incl f (hidden f idx cur) (selectedInGroup f idx cur) v with
      | error e => rfl
      | ok r =>
        simp only [putR_ok, res_bind_ok]
        have hkey := hout idx f (Nat.le_refl _) hf
        have hput : putJ out (jsonKey cs f.name) r = out ++ r.toList.map fun j => (jsonKey cs f.name, j) := by
          cases r with
          | none => simp
          | some j => simp [setItem_fresh out _ j hkey]
        have hout' : ∀ j fj, idx + 1 ≤ j → fs[j]? = some fj →
            jsonKey cs fj.name ∉ (putJ out (jsonKey cs f.name) r).map (·.1) := by
          intro j fj hj hfj hmem
          rw [hput, List.map_append, List.mem_append] at hmem
          rcases hmem with hmem | hmem
          · exact hout j fj (by omega) hfj hmem
          · have : jsonKey cs fj.name = jsonKey cs f.name := by
              cases r <;> simp at hmem; exact hmem
            have := hinj j idx fj f hfj hf this
            omega
        rw [srcLoopP_eq S cs incl fs cur hinj vs (idx + 1) _ h2 hout', hput]
        cases toPyDictKVs S cs incl fs cur (idx + 1) vs with
        | error e => rfl
        | ok rest => cases r <;> simp [Except.bind, bind]

/-- **`to_pydict` of a message, with the loop body as written, is the model's `toPyDict`** -/
theorem srcLoopP_toPyDict (S : Schema) (cs : KeyCase) (incl : Bool) (c : Nat) (sl : List Val) (ow : Bool)
    (unk : Bytes) (cur : List (Option Nat)) (hinj : KeysInj cs (fieldsOf S c))
    (hok : SlotsTieOkP S cs incl (fieldsOf S c) cur 0 sl) :
    (srcLoopP S cs incl (fieldsOf S c) cur 0 sl []).bind (fun kvs => .ok (mkObj kvs))
      = ofR (toPyDict S cs incl (.msg c sl ow unk cur)) := by
  rw [srcLoopP_eq S cs incl _ cur hinj sl 0 [] hok (by simp), toPyDict_msg]
  cases toPyDictKVs S cs incl (fieldsOf S c) cur 0 sl <;> simp [Except.bind, bind]

/-- the guards of the tie hold, slot by slot, of every typed message (`slotsOk'`, the judgement of C04's
    `wellTyped'`) whose dict slots have pairwise distinct keys, in a schema whose fields pass `fieldJsonOk`,
    without `include_default_values` -/
theorem slotsTieOkP_of_typed (S : Schema) (cs : KeyCase) (hS : SchemaJsonOk S) (fs : List FieldD) (cur : List (Option Nat)) :
    ∀ (vs : List Val) (idx : Nat), slotsOk' S fs cur idx vs = true → (∀ v ∈ vs, keysDistinct v = true) →
      SlotsTieOkP S cs false fs cur idx vs
  | [], _, _, _ => trivial
  | v :: vs, idx, h, hk => by
    rw [slotsOk'] at h
    simp only [Bool.and_eq_true] at h
    refine ⟨fun f hf => ⟨fun _ => ?_, fun _ => defaultOkP_of_schema S cs f hS⟩,
      slotsTieOkP_of_typed S cs hS fs cur vs (idx + 1) h.2 (fun x hx => hk x (by simp [hx]))⟩
    have h1 := h.1
    rw [hf] at h1
    exact dynOkJ_of_slotOk' S f _ _ v h1 (hk v (by simp))

/-! ### to_json / from_json -/

/-- **the body of `Message.to_json` as written is the model's `toJson`**: `json.dumps` of
    `self.to_dict(casing, include_default_values)` with BOTH parameters passed on as given, and no
    option of `json.dumps` but `indent` -/
theorem to_json_eq (S : Schema) (E : Enums) (m : Val) (indent : Indent) (incl : Bool) (cs : KeyCase) :
    Src.to_json (fun cs incl => toDict S E cs incl m) indent incl cs
      = (match toJson S E cs incl m with
         | some j => .ok ⟨j⟩
         | Option.none => .raise .type) := by
  unfold Src.to_json jsonDumps toJson
  rfl

/-- **the body of `Message.from_json` as written is the model's `fromJson`**: the instance form of
    `from_dict` on `json.loads(value)` -/
theorem from_json_eq (S : Schema) (E : Enums) (m : Val) (t : JsonText) :
    Src.from_json (fun j => ofR (fromDictI S E m j)) t = ofR (fromJson S E m t.parsed) := by
  unfold Src.from_json jsonLoads fromJson
  rfl

end Bp.SrcTiePyDict
