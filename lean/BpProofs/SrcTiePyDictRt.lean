import BpProofs.SrcTieFromPyDict
import BpProofs.PyDictRt
/-
  The round trip with BOTH top-level loops as written: the field loop of `to_pydict` (`srcLoopP`, body
  `Src.to_pydict_field`) produces the dict, the key loop of `from_pydict` (`srcKeysLoop`, body
  `Src.from_pydict_key`) reads it on a fresh instance.  The run-time guards of the `from_pydict` tie
  (`KeysTieOk`: a dict under a key has as many keys as values; the attribute of a `map<K, Message>` field
  is a dict) are DISCHARGED along this run: the dicts are the ones `to_pydict` wrote (`objLen`), and the
  slot of every field not yet processed still holds its dataclass default (`FreshAbove`), so `getattr`
  returns the default `{}`.
-/
set_option linter.unusedSimpArgs false
set_option linter.unusedVariables false
namespace Bp.SrcTieFromPyDict
open Bp Bp.Py Gen Bp.SrcTieJson Bp.SrcTiePyDict

theorem keys_loop_tie (S : Schema) (cs : KeyCase) (c : Nat) (cur : List (Option Nat))
    (hn : namesOk cs (fieldsOf S c) = true)
    (hopt : ∀ f ∈ fieldsOf S c, f.group.isSome = true → f.optional = false)
    (hfp : ∀ f ∈ fieldsOf S c, FP f) :
    ∀ (vs : List Val) (idx : Nat) (st : MState), FreshAbove (fieldsOf S c) idx st →
      (∀ k v f, vs[k]? = some v → (fieldsOf S c)[idx + k]? = some f →
        SlotRTP S cs (fieldsOf S c) (idx + k) f (hidden f (idx + k) cur) (selectedInGroup f (idx + k) cur) v) →
      ∃ kvs, toPyDictKVs S cs false (fieldsOf S c) cur idx vs = .ok kvs ∧
        KeysTieOk S c st (kvs.map (·.1)) (kvs.map (·.2))
  | [], idx, st, _, _ => ⟨[], by rw [toPyDictKVs], trivial⟩
  | v :: vs, idx, st, hfr, hrt => by
    rw [toPyDictKVs]
    have hrt' : ∀ k v' f, vs[k]? = some v' → (fieldsOf S c)[idx + 1 + k]? = some f →
        SlotRTP S cs (fieldsOf S c) (idx + 1 + k) f (hidden f (idx + 1 + k) cur) (selectedInGroup f (idx + 1 + k) cur) v' := by
      intro k v' f' hv hf'
      have e : idx + (k + 1) = idx + 1 + k := by omega
      have := hrt (k + 1) v' f' (by simpa using hv) (by rw [e]; exact hf')
      rw [e] at this; exact this
    cases hf : (fieldsOf S c)[idx]? with
    | none => exact ⟨[], rfl, trivial⟩
    | some f =>
      simp only
      have h0 := hrt 0 v f (by simp) (by simpa using hf)
      simp only [Nat.add_zero] at h0
      cases hs : toDictSlot S [] cs false f (hidden f idx cur) (selectedInGroup f idx cur) v with
      | none =>
        obtain ⟨kvs, hk1, hk2⟩ := keys_loop_tie S cs c cur hn hopt hfp vs (idx + 1) st (freshAbove_mono _ idx st hfr) hrt'
        refine ⟨kvs, ?_, hk2⟩
        rw [h0.1 hs, hk1]; rfl
      | some j =>
        obtain ⟨p, hp1, hol, hp2⟩ := h0.2 j hs
        have hslot := hfr idx f (Nat.le_refl _) hf
        have hdec := hp2 st hf hslot
        have hkey := namesOk_lookup cs _ hn idx f hf
        obtain ⟨kvs, hk1, hk2⟩ := keys_loop_tie S cs c cur hn hopt hfp vs (idx + 1)
          (setAttr S (fieldsOf S c) st idx (jrt S [] cs v)) (freshAbove_setAttr S _ idx st _ hopt hfr) hrt'
        refine ⟨(jsonKey cs f.name, p) :: kvs, ?_, ?_⟩
        · rw [hp1, hk1]; rfl
        · simp only [List.map_cons]
          refine ⟨⟨hol, ?_⟩, ?_⟩
          · intro i f' hk' hmm v0 st1 hga
            rw [hkey] at hk'
            injection hk' with hk'; injection hk' with hk'
            injection hk' with h1 h2
            subst h1; subst h2
            have hfp' := hfp f (List.mem_of_getElem? hf)
            have hmap : (f.ty == PType.map) = true := by simp only [Bool.and_eq_true] at hmm; exact hmm.1
            have hr := hfp'.fj.map_rep hmap
            rw [getAttr_fresh S _ st idx f hf (hfp'.fj.map_grp hmap) (hfp'.fj.map_opt hmap) hslot] at hga
            injection hga with hga
            injection hga with h1 _
            rw [← h1]
            unfold defaultOf
            rw [defKind_map f hr hmap]; rfl
          · intro st' hst'
            have : keyStepP S c st (jsonKey cs f.name) p = .ok (setAttr S (fieldsOf S c) st idx (jrt S [] cs v)) := by
              unfold keyStepP
              rw [hkey]
              exact hdec
            rw [this] at hst'
            injection hst' with hst'
            rw [← hst']
            exact hk2

/-- **both loops as written**: the field loop of `to_pydict` on `m`, then the key loop of `from_pydict` on a
    fresh instance, end in the state of `jrt m` -/
theorem src_loops_roundtrip (S : Schema) (cs : KeyCase) (hok : pyDictOk S cs = true) (hgroups : groupsOk S = true)
    (c : Nat) (sl : List Val) (ow : Bool) (unk : Bytes) (cur : List (Option Nat))
    (hwt : wellTyped' S (.msg c sl ow unk cur) = true) (hsel : selOk S (.msg c sl ow unk cur) = true)
    (hkeys : dictKeysOk (.msg c sl ow unk cur) = true) (hkd : ∀ v ∈ sl, keysDistinct v = true) :
    ∃ kvs, srcLoopP S cs false (fieldsOf S c) cur 0 sl [] = .ok kvs ∧
      (srcKeysLoop S c (freshOn S c) (kvs.map (·.1)) (kvs.map (·.2))).bind (fun st => .ok (st.toVal c))
        = .ok (jrt S [] cs (.msg c sl ow unk cur)) := by
  obtain ⟨hjson, hP⟩ := pyDictOk_schema S cs hok
  have hS : SchemaOk S [] cs := ⟨hjson, hgroups⟩
  have hbody : bodyOk S c sl unk cur = true := by rw [wellTyped_msg] at hwt; exact hwt
  rw [selOk_msg] at hsel
  rw [dictKeysOk_msg] at hkeys
  simp only [Bool.and_eq_true] at hsel
  obtain ⟨hunk, _, _, hsl⟩ := bodyOk_spec S c sl unk cur hbody
  have hn := schema_names S [] cs hS c
  have hopt : ∀ f ∈ fieldsOf S c, f.group.isSome = true → f.optional = false :=
    fun f hf hg => fieldJsonOk_group_nonopt f (schema_field S [] cs hS c f hf) hg
  have hrt2 := rt_slots S [] cs hS (fieldsOf S c) cur (fun f hf => schema_field S [] cs hS c f hf) sl 0 hsl hsel.2
  have hrtp := rtp_slots S cs hS hP (fieldsOf S c) cur (hP c) sl 0 hsl hsel.2 hkeys
  obtain ⟨kvs, a1, a2⟩ := keys_loop S cs c cur hn hopt sl 0 (freshOn S c) (freshAbove_fresh S c) hrtp
  obtain ⟨kvs', b1, b2⟩ := keys_loop_tie S cs c cur hn hopt (fun f hf => fp_of f (hP c f hf)) sl 0 (freshOn S c)
    (freshAbove_fresh S c) hrtp
  rw [a1] at b1
  injection b1 with b1
  subst b1
  have hinj : KeysInj cs (fieldsOf S c) := by
    intro i j fi fj hi hj hk
    have a := namesOk_lookup cs _ hn i fi hi
    have b := namesOk_lookup cs _ hn j fj hj
    rw [hk, b] at a
    injection a with a
    injection a with a
    exact (Prod.mk.inj a).1.symm
  have hloop := srcLoopP_eq S cs false (fieldsOf S c) cur hinj sl 0 []
    (slotsTieOkP_of_typed S cs (schemaJsonOk_of_jsonOk S [] cs hjson) _ cur sl 0 hsl hkd) (by simp)
  rw [a1] at hloop
  refine ⟨kvs, by simpa using hloop, ?_⟩
  rw [srcKeysLoop_eq S c _ _ _ b2, a2,
    applyKw_fresh_jrt S cs hS c sl unk cur hbody hsel.1 (fun k v f hv hf => by
      have := hrt2 k v f hv (by simpa using hf)
      simpa using this)]
  subst hunk
  simp [jrt_msg, MState.toVal]

end Bp.SrcTieFromPyDict
