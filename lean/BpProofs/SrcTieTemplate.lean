import BpProofs.Gen.SrcTemplate
import BpProofs.TemplateModel
/-
  SOURCE TIE of the plugin's Jinja templates: the functions translated from header.py.j2 / template.py.j2 of the
  working tree (Gen/SrcTemplate.lean, regenerated on every check) EQUAL the named model of TemplateModel.lean, for
  every context.  The proofs are `rfl`: the model is the translation cut into named parts, nothing else; any change
  of a template that changes a piece, a loop, a guard or the ORDER of two blocks makes them fail.
  Then lemmas about the model used by Props/C13SrcTemplate.lean … (membership / counting over the pieces).
-/
namespace Bp.Tpl
set_option maxRecDepth 8000

theorem header_eq (c : OutputFile) : Src.render_header c = header c := rfl

theorem template_eq (c : OutputFile) : Src.render_template c = template c := rfl

theorem module_eq (c : OutputFile) : Src.render_module c = module c := rfl

end Bp.Tpl
