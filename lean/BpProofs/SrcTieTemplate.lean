import BpProofs.Gen.SrcTemplate
import BpProofs.TemplateModel
import BpProofs.ImportingAlias
import BpModel.Typing
/-
  SOURCE TIE of the plugin's Jinja templates: the functions translated from header.py.j2 / template.py.j2 of the
  working tree (Gen/SrcTemplate.lean, regenerated on every check) EQUAL the named model of TemplateModel.lean, for
  every context.  The proofs are `rfl`: the model is the translation cut into named parts, nothing else; any change
  of a template that changes a piece, a loop, a guard or the ORDER of two blocks makes them fail.
  Then lemmas about the model used by Props/C13SrcTemplate.lean … (membership / counting over the pieces).
-/
namespace Bp.Tpl
set_option maxRecDepth 8000

theorem header_eq (c : OutputFile) : Src.render_header c = header c := rfl

theorem template_eq (c : OutputFile) : Src.render_template c = template c := rfl

theorem module_eq (c : OutputFile) : Src.render_module c = module c := rfl

/-! ## lemmas about the rendered text of the named parts -/

theorem text_append (a b : List Piece) : text (a ++ b) = text a ++ text b := List.flatMap_append
theorem text_append' (a b : List Piece) : text (List.append a b) = text a ++ text b := List.flatMap_append
theorem text_cons (p : Piece) (b : List Piece) : text (p :: b) = p.text ++ text b := by
  simp [text, List.flatMap_cons]
theorem text_nil : text [] = [] := rfl

/-- the comma-separated list the header writes after `from datetime import ` / `from pydantic import ` -/
theorem text_commaAux (src : String) : ∀ l : List Str,
    text (forLast l (fun (i : Str) (last : Bool) =>
      List.append [Piece.expr src i] (if (!last) then [Piece.lit ", "] else []))) = jjoin ", ".toList l
  | [] => rfl
  | [x] => by simp [forLast, jjoin, text, Piece.text]
  | x :: y :: r => by
    have ih := text_commaAux src (y :: r)
    rw [forLast, text_append, ih]
    simp [jjoin, text, Piece.text]

theorem text_commaList (src : String) (s : PySet) : text (commaList src s) = jjoin ", ".toList (jsort s) :=
  text_commaAux src _

theorem text_importsEndLines (s : PySet) : text (importsEndLines s) = s.flatMap (fun i => i ++ ['\n']) := by
  induction s with
  | nil => rfl
  | cons x r ih =>
    simp only [importsEndLines, List.flatMap_cons] at ih ⊢
    rw [text_append, ih]
    simp [text, Piece.text]

theorem count_importsEndLines (s : PySet) (i : Str) :
    (importsEndLines s).count (Piece.expr "output_file.imports_end[]" i) = s.count i := by
  induction s with
  | nil => rfl
  | cons x r ih =>
    simp only [importsEndLines, List.flatMap_cons] at ih ⊢
    rw [List.count_append, ih, List.count_cons]
    by_cases h : x = i
    · subst h; simp; omega
    · have : (Piece.expr "output_file.imports_end[]" x == Piece.expr "output_file.imports_end[]" i) = false := by simp [h]
      simp [h, this]

theorem text_moduleImportLines (s : PySet) :
    text (moduleImportLines s) = (jsort s).flatMap (fun m => "import ".toList ++ m ++ ['\n']) := by
  unfold moduleImportLines
  induction jsort s with
  | nil => rfl
  | cons x r ih =>
    simp only [List.flatMap_cons]
    rw [text_append, ih]
    simp [text, Piece.text]

theorem count_eq_one_of_nodup {s : List Str} (hs : s.Nodup) {i : Str} (hi : i ∈ s) : s.count i = 1 := by
  induction s with
  | nil => cases hi
  | cons x r ih =>
    rw [List.nodup_cons] at hs
    rw [List.count_cons]
    by_cases h : x = i
    · subst h; simp [List.count_eq_zero.mpr hs.1]
    · have : i ∈ r := by
        cases hi with
        | head => exact absurd rfl h
        | tail _ h' => exact h'
      simp [h, ih hs.2 this]

end Bp.Tpl

/-! ## lemmas for the compositions with Props/C13.lean (`all_at_once`) and Props/C18.lean (`siteText`) -/
namespace Bp.C13
open Bp Bp.Importing

/-- in a namespace where two bindings of one name are the same binding, what a name is bound to depends on the SET
    of bindings only — not on the order of the import statements, nor on repetitions -/
theorem lookupNs_same_set (ns1 ns2 : List (Importing.Str × Obj)) (h12 : ∀ b ∈ ns1, b ∈ ns2) (h21 : ∀ b ∈ ns2, b ∈ ns1)
    (hcons : ∀ b ∈ ns1, ∀ b' ∈ ns1, b.1 = b'.1 → b = b') (a : Importing.Str) : lookupNs ns1 a = lookupNs ns2 a := by
  by_cases h : ∃ b ∈ ns1, b.1 = a
  · obtain ⟨⟨a', o⟩, hb, rfl⟩ := h
    rw [lookupNs_unique ns1 a' o hb (fun b' hb' e => by rw [hcons b' hb' (a', o) hb e]),
      lookupNs_unique ns2 a' o (h12 _ hb) (fun b' hb' e => by rw [hcons b' (h21 _ hb') (a', o) hb e])]
  · have h1 : ∀ b ∈ ns1, b.1 ≠ a := fun b hb e => h ⟨b, hb, e⟩
    rw [lookupNs_none ns1 a h1, lookupNs_none ns2 a (fun b hb => h1 b (h21 b hb))]

/-- … hence so does the value of every forward reference -/
theorem denoteNs_same_set (cur : Pkg) (ns1 ns2 : List (Importing.Str × Obj)) (h12 : ∀ b ∈ ns1, b ∈ ns2)
    (h21 : ∀ b ∈ ns2, b ∈ ns1) (hcons : ∀ b ∈ ns1, ∀ b' ∈ ns1, b.1 = b'.1 → b = b') (r : Ref) :
    denoteNs cur ns1 r = denoteNs cur ns2 r := by
  cases r <;> simp only [denoteNs, lookupNs_same_set ns1 ns2 h12 h21 hcons]

end Bp.C13

namespace Bp.C18
open Bp Bp.Tpl

/-- `x.strip('"')` of the prelude is the model's `stripQ` -/
theorem strip_eq (s : Str) : Py.strStrip s Tpl.qt = Typing.stripQ s := by
  have : (fun c : Char => Tpl.qt.contains c) = (fun c => c == Typing.dq) := by
    funext c
    simp [Tpl.qt, Typing.dq, List.contains, List.elem]
    cases (c == '"') <;> rfl
  simp only [Py.strStrip, Typing.stripQ, this]

end Bp.C18
