import BpProofs.Gen.SrcTemplate
import BpProofs.TemplateModel
/-
  SOURCE TIE of the plugin's Jinja templates: the functions translated from header.py.j2 / template.py.j2 of the
  working tree (Gen/SrcTemplate.lean, regenerated on every check) EQUAL the named model of TemplateModel.lean, for
  every context.  The proofs are `rfl`: the model is the translation cut into named parts, nothing else; any change
  of a template that changes a piece, a loop, a guard or the ORDER of two blocks makes them fail.
  Then lemmas about the model used by Props/C13SrcTemplate.lean … (membership / counting over the pieces).
-/
namespace Bp.Tpl
set_option maxRecDepth 8000

theorem header_eq (c : OutputFile) : Src.render_header c = header c := rfl

theorem template_eq (c : OutputFile) : Src.render_template c = template c := rfl

theorem module_eq (c : OutputFile) : Src.render_module c = module c := rfl

/-! ## lemmas about the rendered text of the named parts -/

theorem text_append (a b : List Piece) : text (a ++ b) = text a ++ text b := List.flatMap_append
theorem text_append' (a b : List Piece) : text (List.append a b) = text a ++ text b := List.flatMap_append
theorem text_cons (p : Piece) (b : List Piece) : text (p :: b) = p.text ++ text b := by
  simp [text, List.flatMap_cons]
theorem text_nil : text [] = [] := rfl

/-- the comma-separated list the header writes after `from datetime import ` / `from pydantic import ` -/
theorem text_commaAux : ∀ l : List Str,
    text (forLast l (fun (i : Str) (last : Bool) =>
      List.append [Piece.expr "i" i] (if (!last) then [Piece.lit ", "] else []))) = jjoin ", ".toList l
  | [] => rfl
  | [x] => by simp [forLast, jjoin, text, Piece.text]
  | x :: y :: r => by
    have ih := text_commaAux (y :: r)
    rw [forLast, text_append, ih]
    simp [jjoin, text, Piece.text]

theorem text_commaList (s : PySet) : text (commaList s) = jjoin ", ".toList (jsort s) := text_commaAux _

theorem text_importsEndLines (s : PySet) : text (importsEndLines s) = s.flatMap (fun i => i ++ ['\n']) := by
  induction s with
  | nil => rfl
  | cons x r ih =>
    simp only [importsEndLines, List.flatMap_cons] at ih ⊢
    rw [text_append, ih]
    simp [text, Piece.text]

theorem count_importsEndLines (s : PySet) (i : Str) :
    (importsEndLines s).count (Piece.expr "i" i) = s.count i := by
  induction s with
  | nil => rfl
  | cons x r ih =>
    simp only [importsEndLines, List.flatMap_cons] at ih ⊢
    rw [List.count_append, ih, List.count_cons]
    by_cases h : x = i
    · subst h; simp; omega
    · have : (Piece.expr "i" x == Piece.expr "i" i) = false := by simp [h]
      simp [h, this]

theorem text_moduleImportLines (s : PySet) :
    text (moduleImportLines s) = (jsort s).flatMap (fun m => "import ".toList ++ m ++ ['\n']) := by
  unfold moduleImportLines
  induction jsort s with
  | nil => rfl
  | cons x r ih =>
    simp only [List.flatMap_cons]
    rw [text_append, ih]
    simp [text, Piece.text]

theorem count_eq_one_of_nodup {s : List Str} (hs : s.Nodup) {i : Str} (hi : i ∈ s) : s.count i = 1 := by
  induction s with
  | nil => cases hi
  | cons x r ih =>
    rw [List.nodup_cons] at hs
    rw [List.count_cons]
    by_cases h : x = i
    · subst h; simp [List.count_eq_zero.mpr hs.1]
    · have : i ∈ r := by
        cases hi with
        | head => exact absurd rfl h
        | tail _ h' => exact h'
      simp [h, ih hs.2 this]

end Bp.Tpl
