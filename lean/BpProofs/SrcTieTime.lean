import BpProofs.Gen.SrcTime
/-
  THE TIE BETWEEN THE TRANSLATED Timestamp / Duration SOURCE AND THE MODEL.

  `Bp.Src.duration_* / timestamp_*` (BpProofs/Gen/SrcTime.lean) are regenerated from the
  Python AST of `_Duration` / `_Timestamp` in src/betterproto/__init__.py on every run.
  The theorems below say that each translated method computes exactly what the model
  function of BpModel/Time.lean computes, for EVERY integer argument (no range bound:
  the methods are loop-free integer arithmetic).  They are re-checked against whatever
  the source says now; the C15 theorems are about the model functions, so together they
  hold of the code as written today, up to the semantics of the Python primitives fixed in
  BpProofs/PyPrelude.lean and BpProofs/PyPreludeTime.lean.
-/
namespace Bp.SrcTie
open Bp Bp.Py

/-! ### the intrinsics on the operands that occur -/

/-- `delta // timedelta(microseconds=1)` is the microsecond count of `delta` -/
theorem tdFloorDiv_one_us (d : Int) : Py.tdFloorDiv d (Py.timedelta 0 0 1) = d := by
  unfold Py.tdFloorDiv Py.timedelta
  simp

/-- the `offset_us` expression of `from_datetime` reassembles the timedelta it takes apart -/
theorem td_components (us : Int) :
    ((Py.tdDays us * 24 * 60 * 60 + Py.tdSeconds us) * 1000000 + Py.tdMicroseconds us) = us := by
  unfold Py.tdDays Py.tdSeconds Py.tdMicroseconds
  omega

/-! ### `_Duration` -/

/-- `_Duration.from_timedelta` as written is the model's `durSplit` -/
theorem duration_from_timedelta_eq (us : Int) : Src.duration_from_timedelta us = .ok (durSplit us) := by
  unfold Src.duration_from_timedelta durSplit
  simp only [tdFloorDiv_one_us, Py.divmod, Py.abs, decide_eq_true_eq]
  by_cases h : us < 0
  · simp only [h, if_true, Res.ok.injEq, Prod.mk.injEq]
    constructor <;> omega
  · simp only [h, if_false, Res.ok.injEq, Prod.mk.injEq]
    constructor <;> omega

/-- `_Duration.to_timedelta` as written is the model's `durJoin` (the float division is
    the intrinsic `Py.timedeltaSecondsFloatMicros`, see its justification) -/
theorem duration_to_timedelta_eq (s n : Int) : Src.duration_to_timedelta s n = .ok (durJoin s n) := rfl

/-- `_Duration.delta_to_json` as written, up to the rendering of the f-strings, is the
    model's `durJson` -/
theorem duration_delta_to_json_eq (us : Int) :
    Src.duration_delta_to_json us =
      .ok ((durJson us).1, ((durJson us).2.1 : Int), ((durJson us).2.2.1 : Int), ((durJson us).2.2.2 : Int)) := by
  unfold Src.duration_delta_to_json durJson
  simp only [tdFloorDiv_one_us, Py.divmod, Py.abs, Py.fmtSecs, decide_eq_true_eq]
  have hb : (if us < 0 then true else false) = decide (us < 0) := by
    by_cases h : us < 0 <;> simp [h]
  rw [hb]
  by_cases h : us.natAbs % 1000000 % 1000 = 0
  · have h' : ((us.natAbs : Int) % 1000000) % 1000 = 0 := by omega
    simp only [h, h', if_true, Res.ok.injEq, Prod.mk.injEq, true_and]
    refine ⟨by omega, by omega, by omega⟩
  · have h' : ¬ ((us.natAbs : Int) % 1000000) % 1000 = 0 := by omega
    simp only [h, h', if_false, Res.ok.injEq, Prod.mk.injEq, true_and]
    refine ⟨by omega, by omega, by omega⟩

/-! ### `_Timestamp` -/

/-- `_Timestamp.from_datetime` as written is the model's `tsSplit` -/
theorem timestamp_from_datetime_eq (us : Int) : Src.timestamp_from_datetime us = .ok (tsSplit us) := by
  unfold Src.timestamp_from_datetime tsSplit
  simp only [Py.dtSub, Py.epochUtc, Int.sub_zero, td_components, Py.divmod]

/-- `_Timestamp.to_datetime` as written is the model's `tsJoin` -/
theorem timestamp_to_datetime_eq (s n : Int) : Src.timestamp_to_datetime s n = .ok (tsJoin s n) := by
  unfold Src.timestamp_to_datetime tsJoin
  simp only [Py.timedelta, Py.dtAdd, Py.epochUtc, Res.ok.injEq]
  omega

/-! ### `_Timestamp.timestamp_to_json`: the fractional digits -/

theorem ok_bind {α β : Type} (a : α) (f : α → Res β) : (Res.ok a).bind f = f a := rfl

theorem fexact_ok (v : Int) (h : -9007199254740992 < v ∧ v < 9007199254740992) : Py.fexact v = .ok v := by
  unfold Py.fexact
  simp only [h, and_self, if_true]

theorem fmul_us (u : Nat) (_h : u < 1000000) : Py.fmul (u : Int) 1000 = .ok ((u : Int) * 1000) :=
  fexact_ok _ (by omega)

theorem fmod_e9 (u : Nat) (h : u < 1000000) : Py.fmod ((u : Int) * 1000) 1000000000 = .ok ((u : Int) * 1000) := by
  unfold Py.fmod
  rw [show ((u : Int) * 1000) % 1000000000 = (u : Int) * 1000 by omega]
  exact fexact_ok _ (by omega)

theorem fmod_e6 (u : Nat) (_h : u < 1000000) :
    Py.fmod ((u : Int) * 1000) 1000000 = .ok (((u % 1000 : Nat) : Int) * 1000) := by
  unfold Py.fmod
  rw [show ((u : Int) * 1000) % 1000000 = ((u % 1000 : Nat) : Int) * 1000 by omega]
  exact fexact_ok _ (by omega)

theorem fdiv_e6 (u : Nat) (h : u < 1000000) :
    Py.ffloordiv ((u : Int) * 1000) 1000000 = .ok ((u / 1000 : Nat) : Int) := by
  unfold Py.ffloordiv
  rw [show ((u : Int) * 1000) / 1000000 = ((u / 1000 : Nat) : Int) by omega]
  exact fexact_ok _ (by omega)

theorem fmod_e3 (u : Nat) : Py.fmod ((u : Int) * 1000) 1000 = .ok 0 := by
  unfold Py.fmod
  rw [show ((u : Int) * 1000) % 1000 = 0 by omega]
  exact fexact_ok _ (by omega)

theorem fdiv_e3 (u : Nat) (h : u < 1000000) : Py.ffloordiv ((u : Int) * 1000) 1000 = .ok (u : Int) := by
  unfold Py.ffloordiv
  rw [show ((u : Int) * 1000) / 1000 = (u : Int) by omega]
  exact fexact_ok _ (by omega)

/- (the fragment `timestamp_to_json_frac` is gone: the whole method is tied in SrcTieLeaf.lean, which uses the float
   lemmas above) -/

end Bp.SrcTie
