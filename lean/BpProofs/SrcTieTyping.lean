import BpProofs.Gen.SrcTyping
import BpModel.Typing
/-
  THE TIE BETWEEN THE TRANSLATED SOURCE OF plugin/typing_compiler.py AND THE HAND-WRITTEN MODEL (C18).

  `Bp.Src.DirectImportTypingCompiler.*`, `Bp.Src.TypingImportTypingCompiler.*`,
  `Bp.Src.NoTyping310TypingCompiler.*` (BpProofs/Gen/SrcTyping.lean) are regenerated from the Python AST
  of src/betterproto/plugin/typing_compiler.py on every run.  The theorems below say that each of them
  returns exactly the text of the function of BpModel/Typing.lean for the corresponding `Compiler`
  (`.direct` / `.root` / `.c310`), for ALL argument strings and ALL prior states of the object, never
  raises, and leaves the object in the state `requested` / "`_imported` is True" describes.

  The model (BpModel/Typing.lean) has no function for the import bookkeeping of the compilers; the
  obvious one is defined HERE (`Meth`, `requested`, `importsRoot`): which (module, name) pair a method
  of a compiler adds to `self._imports`.  It is used only to state the tie.

  What is trusted is the meaning of the Python primitives fixed in BpProofs/PyPrelude.lean,
  PyPreludeStr.lean, PyPreludeTyping.lean.
-/
namespace Bp.SrcTieTyping
open Bp Bp.Py Bp.Typing

/-- the seven methods of a typing compiler -/
inductive Meth
  | optional | list | dict | union | iterable | asyncIterable | asyncIterator
  deriving DecidableEq, Repr

def Meth.all : List Meth := [.optional, .list, .dict, .union, .iterable, .asyncIterable, .asyncIterator]

/-- the name of `typing` that stands for the method -/
def Meth.typingName : Meth → Str
  | .optional => "Optional".toList
  | .list => "List".toList
  | .dict => "Dict".toList
  | .union => "Union".toList
  | .iterable => "Iterable".toList
  | .asyncIterable => "AsyncIterable".toList
  | .asyncIterator => "AsyncIterator".toList

/-- the (module, name) pairs a method adds to `self._imports` (`self._imports[module].add(name)`):
    typing.direct imports the `typing` name it writes; typing.310 imports the three iterable ABCs from
    `collections.abc` and nothing for the builtin generics / `|`; typing.root has no `_imports` (it sets
    `_imported`, see `importsRoot`) -/
def requested : Compiler → Meth → List (Str × Str)
  | .direct, m => [("typing".toList, m.typingName)]
  | .root, _ => []
  | .c310, .iterable => [("collections.abc".toList, "Iterable".toList)]
  | .c310, .asyncIterable => [("collections.abc".toList, "AsyncIterable".toList)]
  | .c310, .asyncIterator => [("collections.abc".toList, "AsyncIterator".toList)]
  | .c310, _ => []

/-- `TypingImportTypingCompiler.imports()`: `{"typing": None}` once a method has run, else `{}` -/
def importsRoot (imported : Bool) : List (Str × Option (List Str)) :=
  if imported then [("typing".toList, none)] else []

/-! ### the Python primitives on the operands that occur -/

theorem joinStr_eq (sep : Str) : ∀ xs : List Str, Py.joinStr sep xs = joinSep sep xs
  | [] => rfl
  | [_] => rfl
  | x :: y :: r => by
    show x ++ sep ++ Py.joinStr sep (y :: r) = x ++ sep ++ joinSep sep (y :: r)
    rw [joinStr_eq sep (y :: r)]

theorem mapRes_ok {α β : Type} (f : α → Res β) (g : α → β) (h : ∀ x, f x = .ok (g x)) :
    ∀ xs : List α, Py.mapRes f xs = .ok (xs.map g)
  | [] => rfl
  | x :: r => by
    show ((f x).bind fun y => (Py.mapRes f r).bind fun ys => .ok (y :: ys)) = _
    rw [h x, mapRes_ok f g h r]
    rfl

theorem clamp_one (len : Nat) : Py.clamp len 1 = min 1 len := by
  unfold Py.clamp
  simp

theorem clamp_neg_one (len : Nat) : Py.clamp len (-1) = len - 1 := by
  unfold Py.clamp
  simp only [show ((-1 : Int) < 0) from by decide, if_true]
  omega

/-- `s[1:-1]` of a str that starts with a character `c`: the rest without its last character -/
theorem slice_one_neg_one (c : Char) (r : Str) : Py.slice (c :: r) 1 (-1) = r.dropLast := by
  unfold Py.slice
  rw [clamp_one, clamp_neg_one, List.dropLast_eq_take]
  cases r with
  | nil => rfl
  | cons a r' =>
    have e : min 1 (c :: a :: r').length = 1 := by simp
    rw [e]
    simp

theorem startswith_cons (c d : Char) (r : Str) : Py.startswith (c :: r) [d] = (d == c) := by
  simp [Py.startswith, List.isPrefixOf]

theorem startswith_nil (d : Char) : Py.startswith [] [d] = false := by
  simp [Py.startswith, List.isPrefixOf]

/-- `NoTyping310TypingCompiler._fmt` as written is `fmt` -/
theorem fmt_eq (fuel : Nat) (t : Str) : Src.NoTyping310TypingCompiler._fmt fuel t = .ok (fmt t) := by
  unfold Src.NoTyping310TypingCompiler._fmt
  simp only [String.reduceToList]
  cases t with
  | nil =>
    simp only [startswith_nil, Bool.false_eq_true, if_false]
    rfl
  | cons c r =>
    by_cases h : c = '"'
    · subst h
      simp only [startswith_cons, beq_self_eq_true, if_true]
      rw [show (-(1 : Int)) = -1 from rfl, slice_one_neg_one]
      rfl
    · have hb : ('"' == c) = false := by
        simp only [beq_eq_false_iff_ne, ne_eq]
        exact fun e => h e.symm
      simp only [startswith_cons, hb, Bool.false_eq_true, if_false]
      unfold fmt
      split
      · rename_i e; cases e; exact absurd rfl h
      · rfl

/-! ### the model's texts, clause by clause -/

theorem quoted_eq (s : Str) : quoted s = '"' :: (s ++ ['"']) := rfl
theorem optional_direct (t : Str) : optional .direct t = "Optional[".toList ++ t ++ "]".toList := rfl
theorem optional_root (t : Str) : optional .root t = "typing.".toList ++ "Optional[".toList ++ t ++ "]".toList := rfl
theorem optional_c310 (t : Str) : optional .c310 t = quoted (fmt t ++ " | None".toList) := rfl
theorem list_direct (t : Str) : list .direct t = "List[".toList ++ t ++ "]".toList := rfl
theorem list_root (t : Str) : list .root t = "typing.".toList ++ "List[".toList ++ t ++ "]".toList := rfl
theorem list_c310 (t : Str) : list .c310 t = quoted ("list[".toList ++ fmt t ++ "]".toList) := rfl
theorem dict_direct (k v : Str) : dict .direct k v = "Dict[".toList ++ k ++ ", ".toList ++ v ++ "]".toList := rfl
theorem dict_root (k v : Str) :
    dict .root k v = "typing.".toList ++ "Dict[".toList ++ k ++ ", ".toList ++ v ++ "]".toList := rfl
theorem dict_c310 (k v : Str) :
    dict .c310 k v = quoted ("dict[".toList ++ k ++ ", ".toList ++ fmt v ++ "]".toList) := rfl
theorem union_direct (ts : List Str) : union .direct ts = "Union[".toList ++ joinSep ", ".toList ts ++ "]".toList := rfl
theorem union_root (ts : List Str) :
    union .root ts = "typing.".toList ++ "Union[".toList ++ joinSep ", ".toList ts ++ "]".toList := rfl
theorem union_c310 (ts : List Str) : union .c310 ts = quoted (joinSep " | ".toList (ts.map fmt)) := rfl
theorem iterable_direct (t : Str) : iterable .direct t = "Iterable[".toList ++ t ++ "]".toList := rfl
theorem iterable_root (t : Str) : iterable .root t = "typing.".toList ++ "Iterable[".toList ++ t ++ "]".toList := rfl
theorem iterable_c310 (t : Str) : iterable .c310 t = quoted ("Iterable[".toList ++ t ++ "]".toList) := rfl
theorem asyncIterable_direct (t : Str) : asyncIterable .direct t = "AsyncIterable[".toList ++ t ++ "]".toList := rfl
theorem asyncIterable_root (t : Str) :
    asyncIterable .root t = "typing.".toList ++ "AsyncIterable[".toList ++ t ++ "]".toList := rfl
theorem asyncIterable_c310 (t : Str) : asyncIterable .c310 t = quoted ("AsyncIterable[".toList ++ t ++ "]".toList) := rfl
theorem asyncIterator_direct (t : Str) : asyncIterator .direct t = "AsyncIterator[".toList ++ t ++ "]".toList := rfl
theorem asyncIterator_root (t : Str) :
    asyncIterator .root t = "typing.".toList ++ "AsyncIterator[".toList ++ t ++ "]".toList := rfl
theorem asyncIterator_c310 (t : Str) : asyncIterator .c310 t = quoted ("AsyncIterator[".toList ++ t ++ "]".toList) := rfl

theorem requested_direct (m : Meth) : requested .direct m = [("typing".toList, m.typingName)] := rfl
theorem requested_root (m : Meth) : requested .root m = [] := rfl
theorem tn_optional : Meth.typingName .optional = "Optional".toList := rfl
theorem tn_list : Meth.typingName .list = "List".toList := rfl
theorem tn_dict : Meth.typingName .dict = "Dict".toList := rfl
theorem tn_union : Meth.typingName .union = "Union".toList := rfl
theorem tn_iterable : Meth.typingName .iterable = "Iterable".toList := rfl
theorem tn_asyncIterable : Meth.typingName .asyncIterable = "AsyncIterable".toList := rfl
theorem tn_asyncIterator : Meth.typingName .asyncIterator = "AsyncIterator".toList := rfl
theorem rq_c310_optional : requested .c310 .optional = [] := rfl
theorem rq_c310_list : requested .c310 .list = [] := rfl
theorem rq_c310_dict : requested .c310 .dict = [] := rfl
theorem rq_c310_union : requested .c310 .union = [] := rfl
theorem rq_c310_iterable : requested .c310 .iterable = [("collections.abc".toList, "Iterable".toList)] := rfl
theorem rq_c310_asyncIterable :
    requested .c310 .asyncIterable = [("collections.abc".toList, "AsyncIterable".toList)] := rfl
theorem rq_c310_asyncIterator :
    requested .c310 .asyncIterator = [("collections.abc".toList, "AsyncIterator".toList)] := rfl

/-- normal form of the texts: the model's clauses are unfolded, string constants become character lists,
    appends are re-associated to the right -/
macro "norm_text" : tactic => `(tactic| simp only [fmt_eq, joinStr_eq, Res.bind,
  optional_direct, optional_root, optional_c310, list_direct, list_root, list_c310, dict_direct, dict_root, dict_c310,
  union_direct, union_root, union_c310, iterable_direct, iterable_root, iterable_c310,
  asyncIterable_direct, asyncIterable_root, asyncIterable_c310, asyncIterator_direct, asyncIterator_root,
  asyncIterator_c310, requested_direct, requested_root, tn_optional, tn_list, tn_dict, tn_union, tn_iterable,
  tn_asyncIterable, tn_asyncIterator, rq_c310_optional, rq_c310_list, rq_c310_dict, rq_c310_union, rq_c310_iterable,
  rq_c310_asyncIterable, rq_c310_asyncIterator, quoted_eq,
  String.reduceToList, List.cons_append, List.nil_append, List.append_nil, List.append_assoc])

/-! ### DirectImportTypingCompiler = `.direct` -/

theorem direct_optional_eq (fuel : Nat) (imports : List (Str × Str)) (t : Str) :
    Src.DirectImportTypingCompiler.optional fuel imports t
      = .ok (optional .direct t, imports ++ requested .direct .optional) := by
  unfold Src.DirectImportTypingCompiler.optional
  norm_text

theorem direct_list_eq (fuel : Nat) (imports : List (Str × Str)) (t : Str) :
    Src.DirectImportTypingCompiler.list fuel imports t
      = .ok (list .direct t, imports ++ requested .direct .list) := by
  unfold Src.DirectImportTypingCompiler.list
  norm_text

theorem direct_dict_eq (fuel : Nat) (imports : List (Str × Str)) (k v : Str) :
    Src.DirectImportTypingCompiler.dict fuel imports k v
      = .ok (dict .direct k v, imports ++ requested .direct .dict) := by
  unfold Src.DirectImportTypingCompiler.dict
  norm_text

theorem direct_union_eq (fuel : Nat) (imports : List (Str × Str)) (ts : List Str) :
    Src.DirectImportTypingCompiler.union fuel imports ts
      = .ok (union .direct ts, imports ++ requested .direct .union) := by
  unfold Src.DirectImportTypingCompiler.union
  norm_text

theorem direct_iterable_eq (fuel : Nat) (imports : List (Str × Str)) (t : Str) :
    Src.DirectImportTypingCompiler.iterable fuel imports t
      = .ok (iterable .direct t, imports ++ requested .direct .iterable) := by
  unfold Src.DirectImportTypingCompiler.iterable
  norm_text

theorem direct_async_iterable_eq (fuel : Nat) (imports : List (Str × Str)) (t : Str) :
    Src.DirectImportTypingCompiler.async_iterable fuel imports t
      = .ok (asyncIterable .direct t, imports ++ requested .direct .asyncIterable) := by
  unfold Src.DirectImportTypingCompiler.async_iterable
  norm_text

theorem direct_async_iterator_eq (fuel : Nat) (imports : List (Str × Str)) (t : Str) :
    Src.DirectImportTypingCompiler.async_iterator fuel imports t
      = .ok (asyncIterator .direct t, imports ++ requested .direct .asyncIterator) := by
  unfold Src.DirectImportTypingCompiler.async_iterator
  norm_text

/-! ### TypingImportTypingCompiler = `.root` -/

theorem root_optional_eq (fuel : Nat) (imported : Bool) (t : Str) :
    Src.TypingImportTypingCompiler.optional fuel imported t = .ok (optional .root t, true) := by
  unfold Src.TypingImportTypingCompiler.optional
  norm_text

theorem root_list_eq (fuel : Nat) (imported : Bool) (t : Str) :
    Src.TypingImportTypingCompiler.list fuel imported t = .ok (list .root t, true) := by
  unfold Src.TypingImportTypingCompiler.list
  norm_text

theorem root_dict_eq (fuel : Nat) (imported : Bool) (k v : Str) :
    Src.TypingImportTypingCompiler.dict fuel imported k v = .ok (dict .root k v, true) := by
  unfold Src.TypingImportTypingCompiler.dict
  norm_text

theorem root_union_eq (fuel : Nat) (imported : Bool) (ts : List Str) :
    Src.TypingImportTypingCompiler.union fuel imported ts = .ok (union .root ts, true) := by
  unfold Src.TypingImportTypingCompiler.union
  norm_text

theorem root_iterable_eq (fuel : Nat) (imported : Bool) (t : Str) :
    Src.TypingImportTypingCompiler.iterable fuel imported t = .ok (iterable .root t, true) := by
  unfold Src.TypingImportTypingCompiler.iterable
  norm_text

theorem root_async_iterable_eq (fuel : Nat) (imported : Bool) (t : Str) :
    Src.TypingImportTypingCompiler.async_iterable fuel imported t = .ok (asyncIterable .root t, true) := by
  unfold Src.TypingImportTypingCompiler.async_iterable
  norm_text

theorem root_async_iterator_eq (fuel : Nat) (imported : Bool) (t : Str) :
    Src.TypingImportTypingCompiler.async_iterator fuel imported t = .ok (asyncIterator .root t, true) := by
  unfold Src.TypingImportTypingCompiler.async_iterator
  norm_text

theorem root_imports_eq (fuel : Nat) (imported : Bool) :
    Src.TypingImportTypingCompiler.imports fuel imported = .ok (importsRoot imported, imported) := by
  unfold Src.TypingImportTypingCompiler.imports importsRoot
  cases imported <;> rfl

/-! ### NoTyping310TypingCompiler = `.c310` -/

theorem c310_optional_eq (fuel : Nat) (imports : List (Str × Str)) (t : Str) :
    Src.NoTyping310TypingCompiler.optional fuel imports t
      = .ok (optional .c310 t, imports ++ requested .c310 .optional) := by
  unfold Src.NoTyping310TypingCompiler.optional
  norm_text

theorem c310_list_eq (fuel : Nat) (imports : List (Str × Str)) (t : Str) :
    Src.NoTyping310TypingCompiler.list fuel imports t
      = .ok (list .c310 t, imports ++ requested .c310 .list) := by
  unfold Src.NoTyping310TypingCompiler.list
  norm_text

theorem c310_dict_eq (fuel : Nat) (imports : List (Str × Str)) (k v : Str) :
    Src.NoTyping310TypingCompiler.dict fuel imports k v
      = .ok (dict .c310 k v, imports ++ requested .c310 .dict) := by
  unfold Src.NoTyping310TypingCompiler.dict
  norm_text

theorem c310_union_eq (fuel : Nat) (imports : List (Str × Str)) (ts : List Str) :
    Src.NoTyping310TypingCompiler.union fuel imports ts
      = .ok (union .c310 ts, imports ++ requested .c310 .union) := by
  unfold Src.NoTyping310TypingCompiler.union
  rw [mapRes_ok _ fmt (fmt_eq fuel) ts]
  norm_text

theorem c310_iterable_eq (fuel : Nat) (imports : List (Str × Str)) (t : Str) :
    Src.NoTyping310TypingCompiler.iterable fuel imports t
      = .ok (iterable .c310 t, imports ++ requested .c310 .iterable) := by
  unfold Src.NoTyping310TypingCompiler.iterable
  norm_text

theorem c310_async_iterable_eq (fuel : Nat) (imports : List (Str × Str)) (t : Str) :
    Src.NoTyping310TypingCompiler.async_iterable fuel imports t
      = .ok (asyncIterable .c310 t, imports ++ requested .c310 .asyncIterable) := by
  unfold Src.NoTyping310TypingCompiler.async_iterable
  norm_text

theorem c310_async_iterator_eq (fuel : Nat) (imports : List (Str × Str)) (t : Str) :
    Src.NoTyping310TypingCompiler.async_iterator fuel imports t
      = .ok (asyncIterator .c310 t, imports ++ requested .c310 .asyncIterator) := by
  unfold Src.NoTyping310TypingCompiler.async_iterator
  norm_text

/-! ### the compilers as the plugin and the templates use them

  A compiler object is used through its seven methods only.  `Impl σ` is such an object with state `σ`;
  `srcDirect / srcRoot / src310` are the three classes AS WRITTEN (the translated methods);
  `Impl.render` builds the annotation of a type expression by CALLING the methods, innermost first, the way
  `FieldCompiler.annotation` / `MapEntryCompiler.annotation` do; `Impl.site` writes a template position by
  calling them the way templates/template.py.j2 does. -/

structure Impl (σ : Type) where
  optional : σ → Str → Res (Str × σ)
  list : σ → Str → Res (Str × σ)
  dict : σ → Str → Str → Res (Str × σ)
  union : σ → List Str → Res (Str × σ)
  iterable : σ → Str → Res (Str × σ)
  asyncIterable : σ → Str → Res (Str × σ)
  asyncIterator : σ → Str → Res (Str × σ)

/-- `DirectImportTypingCompiler` as written -/
def srcDirect (fuel : Nat) : Impl (List (Str × Str)) where
  optional := Src.DirectImportTypingCompiler.optional fuel
  list := Src.DirectImportTypingCompiler.list fuel
  dict := Src.DirectImportTypingCompiler.dict fuel
  union := Src.DirectImportTypingCompiler.union fuel
  iterable := Src.DirectImportTypingCompiler.iterable fuel
  asyncIterable := Src.DirectImportTypingCompiler.async_iterable fuel
  asyncIterator := Src.DirectImportTypingCompiler.async_iterator fuel

/-- `TypingImportTypingCompiler` as written -/
def srcRoot (fuel : Nat) : Impl Bool where
  optional := Src.TypingImportTypingCompiler.optional fuel
  list := Src.TypingImportTypingCompiler.list fuel
  dict := Src.TypingImportTypingCompiler.dict fuel
  union := Src.TypingImportTypingCompiler.union fuel
  iterable := Src.TypingImportTypingCompiler.iterable fuel
  asyncIterable := Src.TypingImportTypingCompiler.async_iterable fuel
  asyncIterator := Src.TypingImportTypingCompiler.async_iterator fuel

/-- `NoTyping310TypingCompiler` as written -/
def src310 (fuel : Nat) : Impl (List (Str × Str)) where
  optional := Src.NoTyping310TypingCompiler.optional fuel
  list := Src.NoTyping310TypingCompiler.list fuel
  dict := Src.NoTyping310TypingCompiler.dict fuel
  union := Src.NoTyping310TypingCompiler.union fuel
  iterable := Src.NoTyping310TypingCompiler.iterable fuel
  asyncIterable := Src.NoTyping310TypingCompiler.async_iterable fuel
  asyncIterator := Src.NoTyping310TypingCompiler.async_iterator fuel

/-- the object behaves as the model's compiler `c`: every method returns the model's text, never raises,
    and moves the state by `upd` -/
structure Impl.IsModel {σ : Type} (I : Impl σ) (c : Compiler) (upd : σ → Meth → σ) : Prop where
  optional : ∀ s t, I.optional s t = .ok (Typing.optional c t, upd s .optional)
  list : ∀ s t, I.list s t = .ok (Typing.list c t, upd s .list)
  dict : ∀ s k v, I.dict s k v = .ok (Typing.dict c k v, upd s .dict)
  union : ∀ s ts, I.union s ts = .ok (Typing.union c ts, upd s .union)
  iterable : ∀ s t, I.iterable s t = .ok (Typing.iterable c t, upd s .iterable)
  asyncIterable : ∀ s t, I.asyncIterable s t = .ok (Typing.asyncIterable c t, upd s .asyncIterable)
  asyncIterator : ∀ s t, I.asyncIterator s t = .ok (Typing.asyncIterator c t, upd s .asyncIterator)

/-- what a call of method `m` of compiler `c` does to `self._imports` -/
def addRequested (c : Compiler) (s : List (Str × Str)) (m : Meth) : List (Str × Str) := s ++ requested c m

theorem srcDirect_isModel (fuel : Nat) : (srcDirect fuel).IsModel .direct (addRequested .direct) :=
  ⟨direct_optional_eq fuel, direct_list_eq fuel, direct_dict_eq fuel, direct_union_eq fuel, direct_iterable_eq fuel,
   direct_async_iterable_eq fuel, direct_async_iterator_eq fuel⟩

theorem srcRoot_isModel (fuel : Nat) : (srcRoot fuel).IsModel .root (fun _ _ => true) :=
  ⟨root_optional_eq fuel, root_list_eq fuel, root_dict_eq fuel, root_union_eq fuel, root_iterable_eq fuel,
   root_async_iterable_eq fuel, root_async_iterator_eq fuel⟩

theorem src310_isModel (fuel : Nat) : (src310 fuel).IsModel .c310 (addRequested .c310) :=
  ⟨c310_optional_eq fuel, c310_list_eq fuel, c310_dict_eq fuel, c310_union_eq fuel, c310_iterable_eq fuel,
   c310_async_iterable_eq fuel, c310_async_iterator_eq fuel⟩

/-- the annotation of a type expression, built by calling the methods (arguments first, left to right) -/
def Impl.render {σ : Type} (I : Impl σ) : Ty → σ → Res (Str × σ)
  | .name n, s => .ok (n, s)
  | .ref n, s => .ok (quoted n, s)
  | .optional t, s => (I.render t s).bind fun r => I.optional r.2 r.1
  | .list t, s => (I.render t s).bind fun r => I.list r.2 r.1
  | .dict k v, s => (I.render v s).bind fun r => I.dict r.2 k r.1
  | .union a b, s => (I.render a s).bind fun ra => (I.render b ra.2).bind fun rb => I.union rb.2 [ra.1, rb.1]
  | .iterable n, s => I.iterable s n
  | .asyncIterable n, s => I.asyncIterable s n
  | .asyncIterator n, s => I.asyncIterator s n

/-- the methods `Impl.render` calls, in the order it calls them -/
def methodsOf : Ty → List Meth
  | .name _ => []
  | .ref _ => []
  | .optional t => methodsOf t ++ [.optional]
  | .list t => methodsOf t ++ [.list]
  | .dict _ v => methodsOf v ++ [.dict]
  | .union a b => methodsOf a ++ methodsOf b ++ [.union]
  | .iterable _ => [.iterable]
  | .asyncIterable _ => [.asyncIterable]
  | .asyncIterator _ => [.asyncIterator]

theorem Impl.render_eq {σ : Type} {I : Impl σ} {c : Compiler} {upd : σ → Meth → σ} (h : I.IsModel c upd) :
    ∀ (e : Ty) (s : σ), I.render e s = .ok (Typing.render c e, (methodsOf e).foldl upd s)
  | .name _, _ => rfl
  | .ref _, _ => rfl
  | .optional t, s => by
    simp only [Impl.render, Impl.render_eq h t s, Res.bind, h.optional, Typing.render, methodsOf, List.foldl_append,
      List.foldl_cons, List.foldl_nil]
  | .list t, s => by
    simp only [Impl.render, Impl.render_eq h t s, Res.bind, h.list, Typing.render, methodsOf, List.foldl_append,
      List.foldl_cons, List.foldl_nil]
  | .dict k v, s => by
    simp only [Impl.render, Impl.render_eq h v s, Res.bind, h.dict, Typing.render, methodsOf, List.foldl_append,
      List.foldl_cons, List.foldl_nil]
  | .union a b, s => by
    simp only [Impl.render, Impl.render_eq h a s, Impl.render_eq h b, Res.bind, h.union, Typing.render, methodsOf,
      List.foldl_append, List.foldl_cons, List.foldl_nil]
  | .iterable n, s => by
    simp only [Impl.render, h.iterable, Typing.render, methodsOf, List.foldl_cons, List.foldl_nil]
  | .asyncIterable n, s => by
    simp only [Impl.render, h.asyncIterable, Typing.render, methodsOf, List.foldl_cons, List.foldl_nil]
  | .asyncIterator n, s => by
    simp only [Impl.render, h.asyncIterator, Typing.render, methodsOf, List.foldl_cons, List.foldl_nil]

theorem foldl_addRequested (c : Compiler) (ms : List Meth) :
    ∀ s : List (Str × Str), ms.foldl (addRequested c) s = s ++ ms.flatMap (requested c) := by
  induction ms with
  | nil => intro s; simp
  | cons m r ih => intro s; simp only [List.foldl_cons, ih, addRequested, List.flatMap_cons, List.append_assoc]

theorem foldl_true (ms : List Meth) (b : Bool) :
    ms.foldl (fun (_ : Bool) (_ : Meth) => true) b = (b || !ms.isEmpty) := by
  induction ms generalizing b with
  | nil => simp
  | cons m r ih => simp [ih]

/-- the text of an annotation position of template.py.j2, written by calling the methods the way the template does
    (`{{ …compiler.union(…async_iterable(In), …iterable(In)).strip('"') }}` …; arguments left to right) -/
def Impl.site {σ : Type} (I : Impl σ) (tin tout : Str) : Site → σ → Res (Str × σ)
  | .stubUnaryParam, s => .ok (quoted tin, s)
  | .stubIterParam, s =>
    (I.asyncIterable s tin).bind fun a => (I.iterable a.2 tin).bind fun b =>
    (I.union b.2 [a.1, b.1]).bind fun u => .ok (quoted (stripQ u.1), u.2)
  | .stubTimeout, s => I.optional s "float".toList
  | .stubDeadline, s => I.optional s "\"Deadline\"".toList
  | .stubMetadata, s => I.optional s "\"MetadataLike\"".toList
  | .stubReturnUnary, s => .ok (quoted tout, s)
  | .stubReturnStream, s => (I.asyncIterator s tout).bind fun a => .ok (quoted (stripQ a.1), a.2)
  | .baseUnaryParam, s => .ok (quoted tin, s)
  | .baseIterParam, s => I.asyncIterator s tin
  | .baseReturnUnary, s => .ok (quoted tout, s)
  | .baseReturnStream, s => I.asyncIterator s tout
  | .rpcStream, s => .ok (quoted ("grpclib.server.Stream[".toList ++ tin ++ ", ".toList ++ tout ++ "]".toList), s)
  | .mappingReturn, s => I.dict s "str".toList "grpclib.const.Handler".toList

theorem Impl.site_eq {σ : Type} {I : Impl σ} {c : Compiler} {upd : σ → Meth → σ} (h : I.IsModel c upd)
    (tin tout : Str) (st : Site) (s : σ) : ∃ s', I.site tin tout st s = .ok (siteText c tin tout st, s') := by
  cases st <;>
    simp only [Impl.site, h.optional, h.dict, h.union, h.iterable, h.asyncIterable, h.asyncIterator, Res.bind] <;>
    exact ⟨_, rfl⟩

end Bp.SrcTieTyping
