import BpModel.All
import BpProofs.Load
import BpProofs.Varint
/-
  C17, last sentence: whatever `parse` returns is a message in which every field holds a
  value of its declared Python type (`msgTypedB false`), and — for an input made of bytes —
  a value of the encoder's domain (`msgTypedB true`), on which `dumpVal` succeeds.

  Definitions: BpModel/Typed.lean.  The proof is an induction on the fuel of `loadInto`
  with the invariant `StTyped` of the fold state.
-/
namespace Bp
open Gen

/-! ### slot lists -/

theorem slotTypedB_ph (s : Bool) (S : Schema) (f : FieldD) : slotTypedB s S f .ph = true := by
  rw [slotTypedB]

theorem slotsTyped_length (s : Bool) (S : Schema) :
    ∀ (fs : List FieldD) (sl : List Val), slotsTypedB s S fs sl = true → sl.length = fs.length
  | [], [], _ => rfl
  | f :: fs, v :: vs, h => by
    rw [slotsTypedB] at h
    simp only [Bool.and_eq_true] at h
    simp [slotsTyped_length s S fs vs h.2]
  | [], _ :: _, h => by simp [slotsTypedB] at h
  | _ :: _, [], h => by simp [slotsTypedB] at h

theorem slotsTyped_getD (s : Bool) (S : Schema) :
    ∀ (fs : List FieldD) (sl : List Val) (i : Nat) (f : FieldD), slotsTypedB s S fs sl = true →
      fs[i]? = some f → slotTypedB s S f (sl.getD i .ph) = true
  | [], _, _, _, _, hf => by simp at hf
  | _ :: _, [], _, _, h, _ => by simp [slotsTypedB] at h
  | f0 :: fs, v :: vs, i, f, h, hf => by
    rw [slotsTypedB] at h
    simp only [Bool.and_eq_true] at h
    cases i with
    | zero => simp at hf; subst hf; simpa using h.1
    | succ i =>
      simp at hf
      simpa using slotsTyped_getD s S fs vs i f h.2 hf

theorem slotsTyped_set (s : Bool) (S : Schema) :
    ∀ (fs : List FieldD) (sl : List Val) (i : Nat) (f : FieldD) (v : Val), slotsTypedB s S fs sl = true →
      fs[i]? = some f → slotTypedB s S f v = true → slotsTypedB s S fs (setAt sl i v) = true
  | [], _, _, _, _, _, hf, _ => by simp at hf
  | _ :: _, [], _, _, _, h, _, _ => by simp [slotsTypedB] at h
  | f0 :: fs, v0 :: vs, i, f, v, h, hf, hv => by
    rw [slotsTypedB] at h
    simp only [Bool.and_eq_true] at h
    cases i with
    | zero =>
      simp at hf; subst hf
      simp only [setAt, List.set_cons_zero]
      rw [slotsTypedB]; simp [hv, h.2]
    | succ i =>
      simp at hf
      simp only [setAt, List.set_cons_succ]
      rw [slotsTypedB]
      have := slotsTyped_set s S fs vs i f v h.2 hf hv
      simp only [setAt] at this
      simp [h.1, this]

theorem slotsTyped_reset (s : Bool) (S : Schema) (g idx : Nat) :
    ∀ (fs : List FieldD) (sl : List Val) (j : Nat), slotsTypedB s S fs sl = true →
      slotsTypedB s S fs (resetGroup g idx fs sl j) = true
  | [], [], _, _ => by simp [resetGroup, slotsTypedB]
  | [], _ :: _, _, h => by simp [slotsTypedB] at h
  | _ :: _, [], _, h => by simp [slotsTypedB] at h
  | f0 :: fs, v0 :: vs, j, h => by
    rw [slotsTypedB] at h
    simp only [Bool.and_eq_true] at h
    rw [resetGroup, slotsTypedB]
    have := slotsTyped_reset s S g idx fs vs (j + 1) h.2
    split
    · simp [slotTypedB_ph, this]
    · simp [h.1, this]

/-! ### the invariant of the fold state -/

/-- every slot of the partially decoded instance is typed; one selection cell per group -/
def StTyped (s : Bool) (S : Schema) (d : MsgD) (st : MState) : Prop :=
  st.cur.length = d.nGroups ∧ slotsTypedB s S d.fields st.slots = true

theorem slotTypedB_markEmpty (s : Bool) (S : Schema) (f : FieldD) (v : Val) :
    slotTypedB s S f (markEmpty S v) = slotTypedB s S f v := by
  cases v <;> try rfl
  rename_i c sl ow unk cur
  simp only [markEmpty]
  by_cases he : (fieldsOf S c).isEmpty = true
  · simp only [he, if_true]; rw [slotTypedB, slotTypedB]
  · simp only [he]; rfl

theorem setAttr_typed (s : Bool) (S : Schema) (d : MsgD) (st : MState) (idx : Nat) (f : FieldD) (v : Val)
    (hf : d.fields[idx]? = some f) (h : StTyped s S d st) (hv : slotTypedB s S f v = true) :
    StTyped s S d (setAttr S d.fields st idx v) := by
  obtain ⟨hc, hs⟩ := h
  have hv' : slotTypedB s S f (markEmpty S v) = true := by rw [slotTypedB_markEmpty]; exact hv
  unfold setAttr
  simp only [hf]
  cases f.group with
  | none => exact ⟨hc, slotsTyped_set s S _ _ idx f _ hs hf hv'⟩
  | some g =>
    refine ⟨by simp [hc], ?_⟩
    exact slotsTyped_set s S _ _ idx f _ (slotsTyped_reset s S g idx _ _ 0 hs) hf hv'

/-! ### defaults -/

theorem freshSlots_typed (s : Bool) (S : Schema) :
    ∀ fs : List FieldD, slotsTypedB s S fs (fs.map fun f => if f.optional then Val.none else Val.ph) = true
  | [] => by simp [slotsTypedB]
  | f :: fs => by
    simp only [List.map_cons]
    rw [slotsTypedB, freshSlots_typed s S fs]
    cases ho : f.optional
    · simp [slotTypedB_ph]
    · simp only [if_true]; rw [slotTypedB]; simp [noneOkB, ho]

theorem freshState_typed (s : Bool) (S : Schema) (d : MsgD) : StTyped s S d (freshState d) :=
  ⟨by simp [freshState], freshSlots_typed s S d.fields⟩

/-! ### well-formed schemas -/

/-- every field of the class descriptor is well-formed w.r.t. the classes of `S` -/
def WfD (S : Schema) (d : MsgD) : Prop := ∀ f ∈ d.fields, wfFieldB S.length f = true

/-- the schema-only side condition (decidable: `wfSchemaTB`) -/
def WfSchemaT (S : Schema) : Prop := wfSchemaTB S = true

instance (S : Schema) : Decidable (WfSchemaT S) := by unfold WfSchemaT; infer_instance

theorem wfSchema_class (S : Schema) (hS : WfSchemaT S) (c : Nat) (d : MsgD) (h : S[c]? = some d) : WfD S d := by
  unfold WfSchemaT wfSchemaTB at hS
  rw [List.all_eq_true] at hS
  have := hS d (List.mem_of_getElem? h)
  unfold wfMsgDB at this
  rw [List.all_eq_true] at this
  exact this

theorem wfField_rep {n : Nat} {f : FieldD} (h : wfFieldB n f = true) (hr : f.repeated = true) :
    f.optional = false := by
  unfold wfFieldB at h
  simp only [Bool.and_eq_true] at h
  simpa [hr] using h.1.1

theorem wfField_user {n : Nat} {f : FieldD} (h : wfFieldB n f = true) (c : Nat)
    (ht : f.ty = .message) (hk : f.kind = .user c) (hwr : f.wraps = Option.none) : c < n := by
  unfold wfFieldB at h
  simp only [Bool.and_eq_true] at h
  simpa [ht, hk, hwr] using h.1.2

theorem wfField_wrap {n : Nat} {f : FieldD} (h : wfFieldB n f = true) (c : Nat) (w : PType)
    (ht : f.ty = .message) (hk : f.kind = .user c) (hwr : f.wraps = some w) : isScalarTy w = true := by
  unfold wfFieldB at h
  simp only [Bool.and_eq_true] at h
  simpa [ht, hk, hwr] using h.1.2

theorem wfField_map {n : Nat} {f : FieldD} (h : wfFieldB n f = true) (ht : f.ty = .map) :
    isScalarTy f.mapK = true ∧ f.mapV ≠ .map ∧ (f.mapV = .message → ∀ c, f.mapVKind = .user c → c < n) := by
  unfold wfFieldB at h
  simp only [Bool.and_eq_true] at h
  have h2 := h.2
  simp only [ht, beq_self_eq_true, Bool.not_true, Bool.false_or, Bool.and_eq_true] at h2
  refine ⟨h2.1.1, by simpa using h2.1.2, ?_⟩
  intro hm c hc
  simpa [hm, hc] using h2.2

theorem fresh_eq (S : Schema) (c : Nat) (d : MsgD) (h : S[c]? = some d) :
    fresh S c = .msg c (freshState d).slots false [] (freshState d).cur := by
  simp [fresh, fieldsOf, groupsOf, h, freshState]

theorem defaultOf_typed (s : Bool) (S : Schema) (f : FieldD) (hw : wfFieldB S.length f = true) :
    slotTypedB s S f (defaultOf S f) = true := by
  unfold defaultOf FieldD.defKind
  cases hr : f.repeated
  · simp only [Bool.false_eq_true, if_false]
    by_cases hm : f.ty = .map
    · simp only [hm, beq_self_eq_true, if_true, defaultOfKind]
      rw [slotTypedB]; simp [hm, hr, itemsTypedB]
    · have hm' : (f.ty == PType.map) = false := by simpa using hm
      simp only [hm', Bool.false_eq_true, if_false]
      cases hn : (f.optional || f.wraps.isSome)
      · simp only [Bool.false_eq_true, if_false]
        simp only [Bool.or_eq_false_iff] at hn
        have hwn : f.wraps = Option.none := by simpa using hn.2
        by_cases hmsg : f.ty = .message
        · simp only [hmsg, beq_self_eq_true, if_true]
          cases hk : f.kind with
          | user c =>
            have hc := wfField_user hw c hmsg hk hwn
            obtain ⟨d, hd⟩ : ∃ d, S[c]? = some d := ⟨S[c], by simp [hc]⟩
            simp only [msgKindDef, defaultOfKind]
            rw [fresh_eq S c d hd, slotTypedB]
            simp [singularB, hr, hmsg, msgFieldB, hk, hwn, hd, (freshState_typed s S d).1,
              (freshState_typed s S d).2]
          | timestamp =>
            simp [msgKindDef, defaultOfKind, slotTypedB, singularB, hr, hmsg, leafTypedB, hk, tsRangeB,
              tsMinUs, tsMaxUs]
          | duration =>
            simp [msgKindDef, defaultOfKind, slotTypedB, singularB, hr, hmsg, leafTypedB, hk, durRangeB,
              durMinUs, durMaxUs]
        · have hmsg' : (f.ty == PType.message) = false := by simpa using hmsg
          simp only [hmsg', Bool.false_eq_true, if_false]
          cases ht : f.ty <;>
            simp_all [scalarDef, defaultOfKind, slotTypedB, singularB, leafTypedB, elemTy, scalarTypedB,
              isIntTy, intEncB, utf8Valid, utf8ValidFuel]
      · simp only [if_true, defaultOfKind]
        rw [slotTypedB]
        simp [noneOkB, FieldD.defKind, hr, hm', hn]
  · simp only [if_true, defaultOfKind]
    rw [slotTypedB]; simp [hr, itemsTypedB]

theorem materialize_typed (s : Bool) (S : Schema) (f : FieldD) (hw : wfFieldB S.length f = true) (v : Val)
    (h : slotTypedB s S f v = true) : slotTypedB s S f (materialize S f v) = true := by
  cases v <;> first | exact h | exact defaultOf_typed s S f hw

end Bp
