import BpModel.All
import BpProofs.Load
import BpProofs.Varint
import BpProofs.Presence
/-
  C17, last sentence: whatever `parse` returns is a message in which every field holds a
  value of its declared Python type (`msgTypedB false`), and — for an input made of bytes —
  a value of the encoder's domain (`msgTypedB true`), on which `dumpVal` succeeds.

  Definitions: BpModel/Typed.lean.  The proof is an induction on the fuel of `loadInto`
  with the invariant `StTyped` of the fold state.
-/
namespace Bp
open Gen

/-! ### slot lists -/

theorem slotTypedB_ph (s : Bool) (S : Schema) (f : FieldD) : slotTypedB s S f .ph = true := by
  rw [slotTypedB]

theorem slotsTyped_length (s : Bool) (S : Schema) :
    ∀ (fs : List FieldD) (sl : List Val), slotsTypedB s S fs sl = true → sl.length = fs.length
  | [], [], _ => rfl
  | f :: fs, v :: vs, h => by
    rw [slotsTypedB] at h
    simp only [Bool.and_eq_true] at h
    simp [slotsTyped_length s S fs vs h.2]
  | [], _ :: _, h => by simp [slotsTypedB] at h
  | _ :: _, [], h => by simp [slotsTypedB] at h

theorem slotsTyped_getD (s : Bool) (S : Schema) :
    ∀ (fs : List FieldD) (sl : List Val) (i : Nat) (f : FieldD), slotsTypedB s S fs sl = true →
      fs[i]? = some f → slotTypedB s S f (sl.getD i .ph) = true
  | [], _, _, _, _, hf => by simp at hf
  | _ :: _, [], _, _, h, _ => by simp [slotsTypedB] at h
  | f0 :: fs, v :: vs, i, f, h, hf => by
    rw [slotsTypedB] at h
    simp only [Bool.and_eq_true] at h
    cases i with
    | zero => simp at hf; subst hf; simpa using h.1
    | succ i =>
      simp at hf
      simpa using slotsTyped_getD s S fs vs i f h.2 hf

theorem slotsTyped_set (s : Bool) (S : Schema) :
    ∀ (fs : List FieldD) (sl : List Val) (i : Nat) (f : FieldD) (v : Val), slotsTypedB s S fs sl = true →
      fs[i]? = some f → slotTypedB s S f v = true → slotsTypedB s S fs (setAt sl i v) = true
  | [], _, _, _, _, _, hf, _ => by simp at hf
  | _ :: _, [], _, _, _, h, _, _ => by simp [slotsTypedB] at h
  | f0 :: fs, v0 :: vs, i, f, v, h, hf, hv => by
    rw [slotsTypedB] at h
    simp only [Bool.and_eq_true] at h
    cases i with
    | zero =>
      simp at hf; subst hf
      simp only [setAt, List.set_cons_zero]
      rw [slotsTypedB]; simp [hv, h.2]
    | succ i =>
      simp at hf
      simp only [setAt, List.set_cons_succ]
      rw [slotsTypedB]
      have := slotsTyped_set s S fs vs i f v h.2 hf hv
      simp only [setAt] at this
      simp [h.1, this]

theorem slotsTyped_reset (s : Bool) (S : Schema) (g idx : Nat) :
    ∀ (fs : List FieldD) (sl : List Val) (j : Nat), slotsTypedB s S fs sl = true →
      slotsTypedB s S fs (resetGroup g idx fs sl j) = true
  | [], [], _, _ => by simp [resetGroup, slotsTypedB]
  | [], _ :: _, _, h => by simp [slotsTypedB] at h
  | _ :: _, [], _, h => by simp [slotsTypedB] at h
  | f0 :: fs, v0 :: vs, j, h => by
    rw [slotsTypedB] at h
    simp only [Bool.and_eq_true] at h
    rw [resetGroup, slotsTypedB]
    have := slotsTyped_reset s S g idx fs vs (j + 1) h.2
    split
    · simp [slotTypedB_ph, this]
    · simp [h.1, this]

/-! ### the invariant of the fold state -/

/-- every slot of the partially decoded instance is typed; one selection cell per group -/
def StTyped (s : Bool) (S : Schema) (d : MsgD) (st : MState) : Prop :=
  st.cur.length = d.nGroups ∧ slotsTypedB s S d.fields st.slots = true

theorem slotTypedB_markEmpty (s : Bool) (S : Schema) (f : FieldD) (v : Val) :
    slotTypedB s S f (markEmpty S v) = slotTypedB s S f v := by
  cases v <;> try rfl
  rename_i c sl ow unk cur
  simp only [markEmpty]
  by_cases he : (fieldsOf S c).isEmpty = true
  · simp only [he, if_true]; rw [slotTypedB, slotTypedB]
  · simp only [he]; rfl

theorem setAttr_typed (s : Bool) (S : Schema) (d : MsgD) (st : MState) (idx : Nat) (f : FieldD) (v : Val)
    (hf : d.fields[idx]? = some f) (h : StTyped s S d st) (hv : slotTypedB s S f v = true) :
    StTyped s S d (setAttr S d.fields st idx v) := by
  obtain ⟨hc, hs⟩ := h
  have hv' : slotTypedB s S f (markEmpty S v) = true := by rw [slotTypedB_markEmpty]; exact hv
  unfold setAttr
  simp only [hf]
  cases f.group with
  | none => exact ⟨hc, slotsTyped_set s S _ _ idx f _ hs hf hv'⟩
  | some g =>
    refine ⟨by simp [hc], ?_⟩
    exact slotsTyped_set s S _ _ idx f _ (slotsTyped_reset s S g idx _ _ 0 hs) hf hv'

/-! ### defaults -/

theorem freshSlots_typed (s : Bool) (S : Schema) :
    ∀ fs : List FieldD, slotsTypedB s S fs (fs.map fun f => if f.optional then Val.none else Val.ph) = true
  | [] => by simp [slotsTypedB]
  | f :: fs => by
    simp only [List.map_cons]
    rw [slotsTypedB, freshSlots_typed s S fs]
    cases ho : f.optional
    · simp [slotTypedB_ph]
    · simp only [if_true]; rw [slotTypedB]; simp [noneOkB, ho]

theorem freshState_typed (s : Bool) (S : Schema) (d : MsgD) : StTyped s S d (freshState d) :=
  ⟨by simp [freshState], freshSlots_typed s S d.fields⟩

/-! ### well-formed schemas -/

/-- every field of the class descriptor is well-formed w.r.t. the classes of `S` -/
def WfD (S : Schema) (d : MsgD) : Prop := ∀ f ∈ d.fields, wfFieldB S.length f = true

/-- the schema-only side condition (decidable: `wfSchemaTB`) -/
def WfSchemaT (S : Schema) : Prop := wfSchemaTB S = true

instance (S : Schema) : Decidable (WfSchemaT S) := by unfold WfSchemaT; infer_instance

theorem wfSchema_class (S : Schema) (hS : WfSchemaT S) (c : Nat) (d : MsgD) (h : S[c]? = some d) : WfD S d := by
  unfold WfSchemaT wfSchemaTB at hS
  rw [List.all_eq_true] at hS
  have := hS d (List.mem_of_getElem? h)
  unfold wfMsgDB at this
  rw [List.all_eq_true] at this
  exact this

theorem wfField_rep {n : Nat} {f : FieldD} (h : wfFieldB n f = true) (hr : f.repeated = true) :
    f.optional = false := by
  unfold wfFieldB at h
  simp only [Bool.and_eq_true] at h
  simpa [hr] using h.1.1

theorem wfField_user {n : Nat} {f : FieldD} (h : wfFieldB n f = true) (c : Nat)
    (ht : f.ty = .message) (hk : f.kind = .user c) (hwr : f.wraps = Option.none) : c < n := by
  unfold wfFieldB at h
  simp only [Bool.and_eq_true] at h
  simpa [ht, hk, hwr] using h.1.2

theorem wfField_wrap {n : Nat} {f : FieldD} (h : wfFieldB n f = true) (c : Nat) (w : PType)
    (ht : f.ty = .message) (hk : f.kind = .user c) (hwr : f.wraps = some w) : isScalarTy w = true := by
  unfold wfFieldB at h
  simp only [Bool.and_eq_true] at h
  simpa [ht, hk, hwr] using h.1.2

theorem wfField_map {n : Nat} {f : FieldD} (h : wfFieldB n f = true) (ht : f.ty = .map) :
    isScalarTy f.mapK = true ∧ f.mapV ≠ .map ∧ (f.mapV = .message → ∀ c, f.mapVKind = .user c → c < n) := by
  unfold wfFieldB at h
  simp only [Bool.and_eq_true] at h
  have h2 := h.2
  simp only [ht, beq_self_eq_true, Bool.not_true, Bool.false_or, Bool.and_eq_true] at h2
  refine ⟨h2.1.1, by simpa using h2.1.2, ?_⟩
  intro hm c hc
  simpa [hm, hc] using h2.2

theorem fresh_eq (S : Schema) (c : Nat) (d : MsgD) (h : S[c]? = some d) :
    fresh S c = .msg c (freshState d).slots false [] (freshState d).cur := by
  simp [fresh, fieldsOf, groupsOf, h, freshState]

theorem defaultOf_typed (s : Bool) (S : Schema) (f : FieldD) (hw : wfFieldB S.length f = true) :
    slotTypedB s S f (defaultOf S f) = true := by
  unfold defaultOf FieldD.defKind
  cases hr : f.repeated
  · simp only [Bool.false_eq_true, if_false]
    by_cases hm : f.ty = .map
    · simp only [hm, beq_self_eq_true, if_true, defaultOfKind]
      rw [slotTypedB]; simp [hm, hr, itemsTypedB]
    · have hm' : (f.ty == PType.map) = false := by simpa using hm
      simp only [hm', Bool.false_eq_true, if_false]
      cases hn : (f.optional || f.wraps.isSome)
      · simp only [Bool.false_eq_true, if_false]
        simp only [Bool.or_eq_false_iff] at hn
        have hwn : f.wraps = Option.none := by simpa using hn.2
        by_cases hmsg : f.ty = .message
        · simp only [hmsg, beq_self_eq_true, if_true]
          cases hk : f.kind with
          | user c =>
            have hc := wfField_user hw c hmsg hk hwn
            obtain ⟨d, hd⟩ : ∃ d, S[c]? = some d := ⟨S[c], by simp [hc]⟩
            simp only [msgKindDef, defaultOfKind]
            rw [fresh_eq S c d hd, slotTypedB]
            simp [singularB, hr, hmsg, msgFieldB, hk, hwn, hd, (freshState_typed s S d).1,
              (freshState_typed s S d).2]
          | timestamp =>
            simp [msgKindDef, defaultOfKind, slotTypedB, singularB, hr, hmsg, leafTypedB, hk, tsRangeB,
              tsMinUs, tsMaxUs]
          | duration =>
            simp [msgKindDef, defaultOfKind, slotTypedB, singularB, hr, hmsg, leafTypedB, hk, durRangeB,
              durMinUs, durMaxUs]
        · have hmsg' : (f.ty == PType.message) = false := by simpa using hmsg
          simp only [hmsg', Bool.false_eq_true, if_false]
          cases ht : f.ty <;>
            simp_all [scalarDef, defaultOfKind, slotTypedB, singularB, leafTypedB, elemTy, scalarTypedB,
              isIntTy, intEncB, utf8Valid, utf8ValidFuel]
      · simp only [if_true, defaultOfKind]
        rw [slotTypedB]
        simp [noneOkB, FieldD.defKind, hr, hm', hn]
  · simp only [if_true, defaultOfKind]
    rw [slotTypedB]; simp [hr, itemsTypedB]

theorem materialize_typed (s : Bool) (S : Schema) (f : FieldD) (hw : wfFieldB S.length f = true) (v : Val)
    (h : slotTypedB s S f v = true) : slotTypedB s S f (materialize S f v) = true := by
  cases v <;> first | exact h | exact defaultOf_typed s S f hw

/-! ### leaves: what `_postprocess_single` returns -/

theorem loadVarint_lt (bs : Bytes) (v k : Nat) (h : loadVarint bs = .ok (v, k)) : v < 18446744073709551616 := by
  unfold loadVarint at h
  split at h
  · simp at h; rw [← h.1]; exact Nat.mod_lt _ (by decide)
  · simp at h

theorem signRecover32_ge (n : Nat) : (-9223372036854775808 : Int) ≤ signRecover 32 n := by
  unfold signRecover
  simp only
  have : n % 2 ^ 32 < 2 ^ 32 := Nat.mod_lt _ (by decide)
  split <;> (push_cast; omega)

theorem signRecover64_ge (n : Nat) : (-9223372036854775808 : Int) ≤ signRecover 64 n := by
  unfold signRecover
  simp only
  have : n % 2 ^ 64 < 2 ^ 64 := Nat.mod_lt _ (by decide)
  split
  · push_cast; omega
  · rename_i h; push_cast; simp only [Nat.reduceSub] at h; omega

theorem postVarint_typed (s : Bool) (t : PType) (n : Nat) (ht : wireVarintTypes.contains t = true) :
    scalarTypedB s t (postVarint t n) = true := by
  have h32 := signRecover32_ge n
  have h64 := signRecover64_ge n
  cases t <;> simp [wireVarintTypes] at ht <;> cases s <;>
    simp [postVarint, scalarTypedB, isIntTy, intEncB, h32, h64]

theorem quiet32_lt (b : Nat) (h : b < 4294967296) : quiet32 b < 4294967296 := by
  unfold quiet32
  split
  · rename_i hc
    simp only [Bool.and_eq_true, beq_iff_eq] at hc
    have := hc.2
    omega
  · exact h

theorem toSigned_range32 (u : Nat) (h : u < 4294967296) :
    (-2147483648 : Int) ≤ toSigned 32 u ∧ toSigned 32 u < 2147483648 := by
  unfold toSigned
  simp only [Nat.reduceSub, Nat.reducePow]
  split <;> (push_cast; omega)

theorem toSigned_range64 (u : Nat) (h : u < 18446744073709551616) :
    (-9223372036854775808 : Int) ≤ toSigned 64 u ∧ toSigned 64 u < 9223372036854775808 := by
  unfold toSigned
  simp only [Nat.reduceSub, Nat.reducePow]
  split <;> (push_cast; omega)

theorem postFixed_ok (t : PType) (p : Bytes) (v : Val) (h : postFixed t p = .ok v) :
    ∃ w sg fl, fmtOf t = some (w, sg, fl) ∧ p.length = w ∧
      v = (if fl then (if w == 4 then Val.f32 (quiet32 (unpackLE p)) else Val.f64 (unpackLE p))
           else if sg then Val.int (toSigned (8 * w) (unpackLE p)) else Val.int (unpackLE p)) := by
  unfold postFixed at h
  split at h
  · simp at h
  · rename_i w sg fl hfmt
    refine ⟨w, sg, fl, hfmt, ?_⟩
    by_cases hl : p.length = w
    · refine ⟨hl, ?_⟩
      have hl' : (p.length != w) = false := by simp [hl]
      simp only [hl', Bool.false_eq_true, if_false] at h
      cases fl <;> cases sg <;> simp at h ⊢
      · exact h.symm
      · exact h.symm
      · split at h <;> rename_i hw4 <;> simp [hw4] <;> (injection h with h; exact h.symm)
      · split at h <;> rename_i hw4 <;> simp [hw4] <;> (injection h with h; exact h.symm)
    · have hl' : (p.length != w) = true := by simp [hl]
      simp [hl'] at h

theorem postFixed_typed (s : Bool) (t : PType) (p : Bytes) (v : Val) (hw : s = true → WfBytes p)
    (h : postFixed t p = .ok v) : scalarTypedB s t v = true := by
  obtain ⟨w, sg, fl, hfmt, hl, hv⟩ := postFixed_ok t p v h
  cases s with
  | false =>
    cases t <;> simp [fmtOf, packFmt] at hfmt <;> (obtain ⟨h1, h2, h3⟩ := hfmt; subst h1 h2 h3; subst hv) <;>
      simp [scalarTypedB, isIntTy]
  | true =>
    have hlt := unpackLE_lt p (hw rfl)
    cases t <;> simp [fmtOf, packFmt] at hfmt <;>
      (obtain ⟨h1, h2, h3⟩ := hfmt; subst h1 h2 h3; subst hv; rw [hl] at hlt) <;>
      simp only [Nat.reducePow] at hlt <;> simp [scalarTypedB, isIntTy, intEncB]
    · exact quiet32_lt _ hlt
    · exact hlt
    · omega
    · exact toSigned_range32 _ hlt
    · omega
    · exact toSigned_range64 _ hlt

theorem wf_take (p : Bytes) (n : Nat) (h : WfBytes p) : WfBytes (p.take n) :=
  fun b hb => h b (List.mem_of_mem_take hb)

theorem wf_drop (p : Bytes) (n : Nat) (h : WfBytes p) : WfBytes (p.drop n) :=
  fun b hb => h b (List.mem_of_mem_drop hb)

theorem packed_varint (t : PType) (hp : isPacked t = true)
    (h1 : (t == .float || t == .fixed32 || t == .sfixed32) = false)
    (h2 : (t == .double || t == .fixed64 || t == .sfixed64) = false) :
    wireVarintTypes.contains t = true := by
  cases t <;> simp [isPacked, packedTypes, wireVarintTypes] at hp h1 h2 ⊢

theorem decodePackedFuel_typed (s : Bool) (t : PType) (hp : isPacked t = true) :
    ∀ (fuel : Nat) (p : Bytes) (vs : List Val), (s = true → WfBytes p) →
      decodePackedFuel t fuel p = .ok vs → ∀ v ∈ vs, scalarTypedB s t v = true := by
  intro fuel
  induction fuel with
  | zero => intro p vs _ h; simp [decodePackedFuel] at h
  | succ fuel ih =>
    intro p vs hw h
    unfold decodePackedFuel at h
    cases p with
    | nil => simp at h; subst h; intro v hv; simp at hv
    | cons b p =>
      simp only at h
      split at h
      · cases h1 : postFixed t (List.take 4 (b :: p)) with
        | error e => rw [h1] at h; simp at h
        | ok v0 =>
          rw [h1] at h; simp only [bind_ok] at h
          cases h2 : decodePackedFuel t fuel (List.drop 4 (b :: p)) with
          | error e => rw [h2] at h; simp at h
          | ok vs0 =>
            rw [h2] at h; simp only [bind_ok] at h
            injection h with h; subst h
            intro v hv
            simp only [List.mem_cons] at hv
            rcases hv with hv | hv
            · subst hv; exact postFixed_typed s t _ _ (fun hs => wf_take _ _ (hw hs)) h1
            · exact ih _ _ (fun hs => wf_drop _ _ (hw hs)) h2 v hv
      · split at h
        · cases h1 : postFixed t (List.take 8 (b :: p)) with
          | error e => rw [h1] at h; simp at h
          | ok v0 =>
            rw [h1] at h; simp only [bind_ok] at h
            cases h2 : decodePackedFuel t fuel (List.drop 8 (b :: p)) with
            | error e => rw [h2] at h; simp at h
            | ok vs0 =>
              rw [h2] at h; simp only [bind_ok] at h
              injection h with h; subst h
              intro v hv
              simp only [List.mem_cons] at hv
              rcases hv with hv | hv
              · subst hv; exact postFixed_typed s t _ _ (fun hs => wf_take _ _ (hw hs)) h1
              · exact ih _ _ (fun hs => wf_drop _ _ (hw hs)) h2 v hv
        · rename_i hn1 hn2
          have hv := packed_varint t hp (by simpa using hn1) (by simpa using hn2)
          split at h
          · simp at h
          · rename_i n k hlv
            cases h2 : decodePackedFuel t fuel (List.drop k (b :: p)) with
            | error e => rw [h2] at h; simp at h
            | ok vs0 =>
              rw [h2] at h; simp only [bind_ok] at h
              injection h with h; subst h
              intro v hv'
              simp only [List.mem_cons] at hv'
              rcases hv' with hv' | hv'
              · subst hv'; exact postVarint_typed s t n hv
              · exact ih _ _ (fun hs => wf_drop _ _ (hw hs)) h2 v hv'

/-! ### lists of elements -/

theorem items_cons (s : Bool) (S : Schema) (f : FieldD) (x : Val) (xs : List Val) :
    itemsTypedB s S f (x :: xs) = (itemsTypedB s S f [x] && itemsTypedB s S f xs) := by
  cases x <;> simp [itemsTypedB]

theorem items_append (s : Bool) (S : Schema) (f : FieldD) (xs ys : List Val) :
    itemsTypedB s S f (xs ++ ys) = (itemsTypedB s S f xs && itemsTypedB s S f ys) := by
  induction xs with
  | nil => simp [itemsTypedB]
  | cons x xs ih => rw [List.cons_append, items_cons, ih, items_cons s S f x xs, Bool.and_assoc]

theorem item_leaf (s : Bool) (S : Schema) (f : FieldD) (x : Val) (h : leafTypedB s f x = true) :
    itemsTypedB s S f [x] = true := by
  cases x <;> simp [leafTypedB] at h <;> simp [itemsTypedB, leafTypedB, h]

theorem items_of_leaves (s : Bool) (S : Schema) (f : FieldD) (vs : List Val)
    (h : ∀ v ∈ vs, leafTypedB s f v = true) : itemsTypedB s S f vs = true := by
  induction vs with
  | nil => simp [itemsTypedB]
  | cons x xs ih =>
    rw [items_cons, item_leaf s S f x (h x (by simp)), ih (fun v hv => h v (by simp [hv]))]
    rfl

theorem leaf_of_scalar (s : Bool) (f : FieldD) (t : PType) (v : Val) (he : elemTy f = some t)
    (h : scalarTypedB s t v = true) : leafTypedB s f v = true := by
  cases v <;> simp [scalarTypedB] at h <;> simp [leafTypedB, he, scalarTypedB, h]

theorem elemTy_plain (f : FieldD) (h : f.ty ≠ .message) : elemTy f = some f.ty := by
  unfold elemTy
  simp [h]

/-- a singular typed slot that is set holds an element -/
theorem slot_item (s : Bool) (S : Schema) (f : FieldD) (v : Val) (h : slotTypedB s S f v = true)
    (hp : v ≠ .ph) (hn : v ≠ .none) (hs : singularB f = true) : itemsTypedB s S f [v] = true := by
  unfold singularB at hs
  simp only [Bool.and_eq_true, Bool.not_eq_true', bne_iff_ne, ne_eq] at hs
  cases v with
  | ph => exact absurd rfl hp
  | none => exact absurd rfl hn
  | list xs => rw [slotTypedB] at h; simp [hs.1] at h
  | dict ks vs => rw [slotTypedB] at h; simp [hs.2] at h
  | msg c sl ow unk cur =>
    rw [slotTypedB] at h
    simp only [Bool.and_eq_true] at h
    rw [itemsTypedB, itemsTypedB]
    simp [h.1.2, h.2]
  | _ =>
    simp only [slotTypedB, Bool.and_eq_true] at h
    exact item_leaf s S f _ h.2

/-- an element is a typed value of a singular slot -/
theorem item_slot (s : Bool) (S : Schema) (f : FieldD) (v : Val) (h : itemsTypedB s S f [v] = true)
    (hs : singularB f = true) : slotTypedB s S f v = true := by
  cases v with
  | ph => exact slotTypedB_ph s S f
  | msg c sl ow unk cur =>
    rw [itemsTypedB, itemsTypedB, Bool.and_true] at h
    simp only [Bool.and_eq_true] at h
    rw [slotTypedB]
    simp [hs, h.1, h.2]
  | _ => simp [itemsTypedB, leafTypedB] at h <;> simp [slotTypedB, hs, leafTypedB, h]

theorem dictInsert_typed (s : Bool) (S : Schema) (fk fv : FieldD) (k v : Val)
    (hk : itemsTypedB s S fk [k] = true) (hv : itemsTypedB s S fv [v] = true) :
    ∀ (ks vs : List Val), ks.length = vs.length → itemsTypedB s S fk ks = true → itemsTypedB s S fv vs = true →
      (dictInsert ks vs k v).1.length = (dictInsert ks vs k v).2.length
      ∧ itemsTypedB s S fk (dictInsert ks vs k v).1 = true ∧ itemsTypedB s S fv (dictInsert ks vs k v).2 = true
  | [], [], _, _, _ => by simp [dictInsert, hk, hv]
  | [], _ :: _, hl, _, _ => by simp at hl
  | _ :: _, [], hl, _, _ => by simp at hl
  | k' :: ks, v' :: vs, hl, h1, h2 => by
    rw [items_cons] at h1 h2
    simp only [Bool.and_eq_true] at h1 h2
    simp only [List.length_cons, Nat.add_right_cancel_iff] at hl
    obtain ⟨i1, i2, i3⟩ := dictInsert_typed s S fk fv k v hk hv ks vs hl h1.2 h2.2
    rw [dictInsert]
    split
    · refine ⟨by simp [hl], ?_, ?_⟩
      · rw [items_cons]; simp [h1.1, h1.2]
      · rw [items_cons]; simp [hv, h2.2]
    · refine ⟨by simp [i1], ?_, ?_⟩
      · simp only; rw [items_cons]; simp [h1.1, i2]
      · simp only; rw [items_cons]; simp [h2.1, i3]

/-! ### the value a known, fitting record decodes to -/

theorem wireFits_cases (f : FieldD) (wt : Nat) (h : wireFits f wt = true) :
    (wt = 0 ∧ wireVarintTypes.contains f.ty = true)
    ∨ ((wt = 5 ∨ wt = 1) ∧ isFixed f.ty = true)
    ∨ (wt = 2 ∧ (f.ty = .string ∨ f.ty = .bytes ∨ f.ty = .message ∨ f.ty = .map))
    ∨ (wt = 2 ∧ isPacked f.ty = true ∧ f.repeated = true) := by
  unfold wireFits at h
  cases ht : f.ty <;> rw [ht] at h <;>
    simp [wireTypeByProtoType, wireLenDelim, isPacked, packedTypes] at h <;>
    simp [wireVarintTypes, isFixed, fixedTypes, isPacked, packedTypes] <;> first | exact h | (rcases h with h | h <;> simp [h])

theorem item_scalar (s : Bool) (S : Schema) (g : FieldD) (v : Val) (hg : g.ty ≠ .message)
    (h : itemsTypedB s S g [v] = true) : scalarTypedB s g.ty v = true := by
  cases v <;> simp [itemsTypedB, leafTypedB, elemTy_plain g hg, msgFieldB, hg] at h <;> exact h

/-- what the nested loader is assumed to do (induction hypothesis on the fuel) -/
def LoaderOk (s : Bool) (S : Schema) (rec : Loader) : Prop :=
  ∀ (d : MsgD) (st : MState) (bs : Bytes) (st' : MState), WfD S d → (s = true → WfBytes bs) →
    StTyped s S d st → rec d st bs = .ok st' → StTyped s S d st'

/-- the decoded value fits what `storeValue` does with it: a chunk of list items, one map
    entry, or one element -/
def decodedOkB (s : Bool) (S : Schema) (f : FieldD) : Val → Bool
  | .list vs => f.repeated && itemsTypedB s S f vs
  | .dict ks vs => f.ty == .map && itemsTypedB s S (keyFieldOf f) ks && itemsTypedB s S (valFieldOf f) vs
  | v => itemsTypedB s S f [v]

theorem decoded_of_leaf (s : Bool) (S : Schema) (f : FieldD) (v : Val) (h : leafTypedB s f v = true) :
    decodedOkB s S f v = true := by
  cases v <;> simp [leafTypedB] at h <;> simp [decodedOkB, itemsTypedB, leafTypedB, h]

theorem wfD_secNanos (S : Schema) : WfD S secNanosD := by
  intro f hf
  simp [secNanosD] at hf
  rcases hf with rfl | rfl <;> simp [wfFieldB]

theorem wfD_wrapper (S : Schema) (w : PType) (hw : isScalarTy w = true) : WfD S (wrapperD w) := by
  intro f hf
  simp [wrapperD] at hf
  subst hf
  unfold isScalarTy at hw
  simp only [Bool.and_eq_true, bne_iff_ne, ne_eq] at hw
  simp [wfFieldB, hw.1, hw.2]

theorem entryD_fields (f : FieldD) : (entryD f).fields = [keyFieldOf f, valFieldOf f] := rfl

theorem wfD_entry (S : Schema) (f : FieldD) (hw : wfFieldB S.length f = true) (ht : f.ty = .map) :
    WfD S (entryD f) := by
  obtain ⟨h1, h2, h3⟩ := wfField_map hw ht
  unfold isScalarTy at h1
  simp only [Bool.and_eq_true, bne_iff_ne, ne_eq] at h1
  intro g hg
  rw [entryD_fields] at hg
  simp at hg
  rcases hg with rfl | rfl
  · simp [wfFieldB, keyFieldOf, h1.1, h1.2]
  · by_cases hm : f.mapV = .message
    · cases hk : f.mapVKind with
      | user c => simp [wfFieldB, valFieldOf, hm, hk, h3 hm c hk]
      | timestamp => simp [wfFieldB, valFieldOf, hm, hk]
      | duration => simp [wfFieldB, valFieldOf, hm, hk]
    · simp [wfFieldB, valFieldOf, hm, h2]

theorem defaultOf_ne (S : Schema) (f : FieldD) (hn : noneOkB f = false) :
    defaultOf S f ≠ .ph ∧ defaultOf S f ≠ .none := by
  unfold noneOkB at hn
  simp only [Bool.or_eq_false_iff] at hn
  have hk := hn.2
  unfold defaultOf
  cases hd : f.defKind <;> simp [defaultOfKind, fresh]
  simp [hd] at hk

/-- the attribute read of a singular field whose default is not None yields an element -/
theorem materialized_item (s : Bool) (S : Schema) (f : FieldD) (hw : wfFieldB S.length f = true)
    (hs : singularB f = true) (hn : noneOkB f = false) (v : Val) (h : slotTypedB s S f v = true) :
    itemsTypedB s S f [materialize S f v] = true := by
  have ht := materialize_typed s S f hw v h
  have hd := defaultOf_ne S f hn
  apply slot_item s S f _ ht _ _ hs
  · cases v <;> simp [materialize]
    exact hd.1
  · cases v <;> simp [materialize]
    · exact hd.2
    · rw [slotTypedB] at h; rw [h] at hn; simp at hn

theorem postLen_typed (s : Bool) (S : Schema) (rec : Loader) (hrec : LoaderOk s S rec) (hS : WfSchemaT S)
    (f : FieldD) (p : Bytes) (value : Val) (hw : wfFieldB S.length f = true)
    (ht : f.ty = .string ∨ f.ty = .bytes ∨ f.ty = .message) (hb : s = true → WfBytes p)
    (h : postLen S rec f p = .ok value) : itemsTypedB s S f [value] = true := by
  unfold postLen at h
  split at h
  · rename_i hstr
    have hstr' : f.ty = .string := by simpa using hstr
    split at h
    · rename_i hu
      injection h with h; subst h
      apply item_leaf
      apply leaf_of_scalar s f .string _ (by rw [← hstr']; exact elemTy_plain f (by rw [hstr']; simp))
      simp [scalarTypedB, hu]
    · simp at h
  · split at h
    · rename_i hmsg
      have hmsg' : f.ty = .message := by simpa using hmsg
      split at h
      · -- Timestamp
        rename_i hk
        cases hr : rec secNanosD (freshState secNanosD) p with
        | error e => rw [hr] at h; simp at h
        | ok st =>
          rw [hr] at h; simp only [bind_ok] at h
          split at h
          · split at h
            · rename_i hrange
              injection h with h; subst h
              apply item_leaf
              cases s <;> simp [leafTypedB, hmsg', hk, tsRangeB, hrange.1, hrange.2]
            · simp at h
          · simp at h
      · -- Duration
        rename_i hk
        cases hr : rec secNanosD (freshState secNanosD) p with
        | error e => rw [hr] at h; simp at h
        | ok st =>
          rw [hr] at h; simp only [bind_ok] at h
          split at h
          · split at h
            · rename_i hrange
              injection h with h; subst h
              apply item_leaf
              cases s <;> simp [leafTypedB, hmsg', hk, durRangeB, hrange.1, hrange.2]
            · simp at h
          · simp at h
      · -- wrapper
        rename_i c w hk hwr
        have hsc := wfField_wrap hw c w hmsg' hk hwr
        cases hr : rec (wrapperD w) (freshState (wrapperD w)) p with
        | error e => rw [hr] at h; simp at h
        | ok st =>
          rw [hr] at h; simp only [bind_ok] at h
          injection h with h; subst h
          have hst := hrec _ _ _ _ (wfD_wrapper S w hsc) hb (freshState_typed s S _) hr
          have hslot := slotsTyped_getD s S _ _ 0 _ hst.2 (show (wrapperD w).fields[0]? = some _ from rfl)
          have hwf := wfD_wrapper S w hsc _ (show (wrapperD w).fields[0]! ∈ (wrapperD w).fields by simp [wrapperD])
          unfold isScalarTy at hsc
          simp only [Bool.and_eq_true, bne_iff_ne, ne_eq] at hsc
          have hitem := materialized_item s S ((wrapperD w).fields[0]!) hwf
            (by simp [wrapperD, singularB, hsc.2])
            (by simp [wrapperD, noneOkB, FieldD.defKind, hsc.1, hsc.2]; cases w <;> simp [scalarDef] at hsc ⊢)
            _ hslot
          -- transport from the wrapper's `value` field to the wrapper field itself
          have he : elemTy f = some w := by simp [elemTy, hmsg', hk, hwr]
          have hsv := item_scalar s S ((wrapperD w).fields[0]!) _ (by simp [wrapperD, hsc.1]) hitem
          exact item_leaf s S f _ (leaf_of_scalar s f w _ he hsv)
      · -- nested message
        rename_i c hk hwr
        split at h
        · simp at h
        · rename_i d hd
          cases hr : rec d (freshState d) p with
          | error e => rw [hr] at h; simp at h
          | ok st =>
            rw [hr] at h; simp only [bind_ok] at h
            injection h with h; subst h
            have hst := hrec _ _ _ _ (wfSchema_class S hS c d hd) hb (freshState_typed s S _) hr
            rw [itemsTypedB, itemsTypedB]
            simp [msgFieldB, hmsg', hk, hwr, hd, hst.1, hst.2]
    · rename_i hns hnm
      injection h with h; subst h
      have hby : f.ty = .bytes := by
        rcases ht with ht | ht | ht
        · simp [ht] at hns
        · exact ht
        · simp [ht] at hnm
      apply item_leaf
      apply leaf_of_scalar s f .bytes _ (by rw [← hby]; exact elemTy_plain f (by rw [hby]; simp))
      simp [scalarTypedB]

theorem decoded_of_item (s : Bool) (S : Schema) (f : FieldD) (v : Val)
    (h : itemsTypedB s S f [v] = true) : decodedOkB s S f v = true := by
  cases v <;> first | exact h | (simp [itemsTypedB, leafTypedB] at h)

theorem decodeValue_typed (s : Bool) (S : Schema) (rec : Loader) (hrec : LoaderOk s S rec) (hS : WfSchemaT S)
    (f : FieldD) (pf : PField) (value : Val) (hw : wfFieldB S.length f = true)
    (hfit : wireFits f pf.wt = true) (hb : s = true → WfBytes pf.payload)
    (h : decodeValue S rec f pf = .ok value) : decodedOkB s S f value = true := by
  have hcases := wireFits_cases f pf.wt hfit
  unfold decodeValue at h
  split at h
  · -- a packed chunk
    rename_i hc
    simp only [Bool.and_eq_true, beq_iff_eq] at hc
    cases hd : decodePacked f.ty pf.payload with
    | error e => rw [hd] at h; simp at h
    | ok vs =>
      rw [hd] at h; simp only [bind_ok] at h; injection h with h; subst h
      have hne : f.ty ≠ .message := by intro e; rw [e] at hc; simp [isPacked, packedTypes] at hc
      have hrep : f.repeated = true := by
        rcases hcases with ⟨h0, _⟩ | ⟨h0, _⟩ | ⟨_, h0⟩ | ⟨_, _, h0⟩
        · rw [hc.1] at h0; simp [wireLenDelim] at h0
        · rw [hc.1] at h0; simp [wireLenDelim] at h0
        · rcases h0 with h0 | h0 | h0 | h0 <;> (rw [h0] at hc; simp [isPacked, packedTypes] at hc)
        · exact h0
      simp only [decodedOkB, hrep, Bool.true_and]
      apply items_of_leaves
      intro v hv
      unfold decodePacked at hd
      exact leaf_of_scalar s f f.ty v (elemTy_plain f hne) (decodePackedFuel_typed s f.ty hc.2 _ _ _ hb hd v hv)
  · split at h
    · -- varint
      rename_i _ hv0
      have hv0' : pf.wt = 0 := by simpa [wireVarint] using hv0
      injection h with h; subst h
      have hvt : wireVarintTypes.contains f.ty = true := by
        rcases hcases with ⟨_, h0⟩ | ⟨h0, _⟩ | ⟨h0, _⟩ | ⟨h0, _⟩
        · exact h0
        · rw [hv0'] at h0; simp at h0
        · rw [hv0'] at h0; simp at h0
        · rw [hv0'] at h0; simp at h0
      have hne : f.ty ≠ .message := by intro e; rw [e] at hvt; simp [wireVarintTypes] at hvt
      exact decoded_of_leaf s S f _ (leaf_of_scalar s f f.ty _ (elemTy_plain f hne) (postVarint_typed s f.ty _ hvt))
    · split at h
      · -- fixed
        have hne : f.ty ≠ .message := by intro e; rw [e] at h; simp [postFixed, fmtOf, packFmt] at h
        exact decoded_of_leaf s S f _ (leaf_of_scalar s f f.ty _ (elemTy_plain f hne) (postFixed_typed s f.ty _ _ hb h))
      · split at h
        · -- one map entry
          rename_i hmap
          have hmap' : f.ty = .map := by simpa using hmap
          have hwe := wfD_entry S f hw hmap'
          obtain ⟨m1, m2, _⟩ := wfField_map hw hmap'
          unfold isScalarTy at m1
          simp only [Bool.and_eq_true, bne_iff_ne, ne_eq] at m1
          cases hr : rec (entryD f) (freshState (entryD f)) pf.payload with
          | error e => rw [hr] at h; simp at h
          | ok est =>
            rw [hr] at h; simp only [bind_ok] at h
            injection h with h; subst h
            have hst := hrec _ _ _ _ hwe hb (freshState_typed s S _) hr
            have hk := slotsTyped_getD s S _ _ 0 _ hst.2 (show (entryD f).fields[0]? = some (keyFieldOf f) from rfl)
            have hv := slotsTyped_getD s S _ _ 1 _ hst.2 (show (entryD f).fields[1]? = some (valFieldOf f) from rfl)
            have ik := materialized_item s S (keyFieldOf f) (hwe _ (by simp [entryD_fields]))
              (by simp [keyFieldOf, singularB, m1.2])
              (by simp [keyFieldOf, noneOkB, FieldD.defKind, m1.1, m1.2]; cases hk' : f.mapK <;> simp [scalarDef, hk'] at m1 ⊢)
              _ hk
            have iv := materialized_item s S (valFieldOf f) (hwe _ (by simp [entryD_fields]))
              (by simp [valFieldOf, singularB, m2])
              (by
                simp only [valFieldOf, noneOkB, FieldD.defKind, Bool.false_eq_true, if_false, Bool.false_or,
                  Option.isSome_none, Bool.or_self]
                have : (f.mapV == PType.map) = false := by simpa using m2
                simp only [this, Bool.false_eq_true, if_false]
                by_cases hm : f.mapV = .message
                · simp only [hm, beq_self_eq_true, if_true]; cases f.mapVKind <;> simp [msgKindDef]
                · have : (f.mapV == PType.message) = false := by simpa using hm
                  simp only [this, Bool.false_eq_true, if_false]
                  cases hv' : f.mapV <;> simp [scalarDef, hv'] at hm m2 ⊢)
              _ hv
            simp only [decodedOkB, hmap, Bool.true_and, Bool.and_eq_true]
            exact ⟨ik, iv⟩
        · rename_i hnp hn0 hnf hnm
          have hnm' : f.ty ≠ .map := by simpa using hnm
          apply decoded_of_item s S f _
          apply postLen_typed s S rec hrec hS f _ _ hw _ hb h
          rcases hcases with ⟨h0, _⟩ | ⟨h0, _⟩ | ⟨_, h0⟩ | ⟨h0, h1, _⟩
          · simp [h0, wireVarint] at hn0
          · rcases h0 with h0 | h0 <;> simp [h0, wireFixed32, wireFixed64] at hnf
          · rcases h0 with h0 | h0 | h0 | h0
            · exact Or.inl h0
            · exact Or.inr (Or.inl h0)
            · exact Or.inr (Or.inr h0)
            · exact absurd h0 hnm'
          · simp [h0, h1, wireLenDelim] at hnp

/-! ### the steps of the loop of `Message.load` -/

theorem prepCurrent_typed (s : Bool) (S : Schema) (d : MsgD) (st : MState) (idx : Nat) (f : FieldD)
    (hf : d.fields[idx]? = some f) (hw : wfFieldB S.length f = true) (h : StTyped s S d st) :
    StTyped s S d (prepCurrent S d st idx f) := by
  unfold prepCurrent
  split
  · exact setAttr_typed s S d st idx f _ hf h (defaultOf_typed s S f hw)
  · exact ⟨h.1, slotsTyped_set s S _ _ idx f _ h.2 hf
      (materialize_typed s S f hw _ (slotsTyped_getD s S _ _ idx f h.2 hf))⟩

theorem ty_getD_setAt_self (xs : List Val) (i : Nat) (v : Val) (h : i < xs.length) :
    (setAt xs i v).getD i .ph = v := by
  unfold setAt
  simp [List.getD_eq_getElem?_getD, h]

theorem ty_resetGroup_length (g idx : Nat) : ∀ (fs : List FieldD) (ss : List Val) (j : Nat),
    (resetGroup g idx fs ss j).length = ss.length
  | [], ss, _ => by cases ss <;> simp [resetGroup]
  | _ :: _, [], _ => by simp [resetGroup]
  | f :: fs, v :: vs, j => by simp [resetGroup, ty_resetGroup_length g idx fs vs (j + 1)]

theorem setAttr_slot (S : Schema) (fs : List FieldD) (st : MState) (idx : Nat) (f : FieldD) (v : Val)
    (hf : fs[idx]? = some f) (hl : idx < st.slots.length) :
    (setAttr S fs st idx v).slots.getD idx .ph = markEmpty S v := by
  unfold setAttr
  simp only [hf]
  cases f.group with
  | none => exact ty_getD_setAt_self _ _ _ hl
  | some g => exact ty_getD_setAt_self _ _ _ (by rw [ty_resetGroup_length]; exact hl)

/-- after the attribute read, the slot of a repeated field holds a list -/
theorem prepCurrent_list (s : Bool) (S : Schema) (d : MsgD) (st : MState) (idx : Nat) (f : FieldD)
    (hf : d.fields[idx]? = some f) (hw : wfFieldB S.length f = true) (h : StTyped s S d st)
    (hr : f.repeated = true) : ∃ xs, (prepCurrent S d st idx f).slots.getD idx .ph = .list xs := by
  have hlen := slotsTyped_length s S _ _ h.2
  have hidx : idx < st.slots.length := by
    rw [hlen]; exact (List.getElem?_eq_some_iff.mp hf).1
  have hdef : defaultOf S f = .list [] := by simp [defaultOf, FieldD.defKind, hr, defaultOfKind]
  unfold prepCurrent
  split
  · rw [setAttr_slot S _ _ _ f _ hf hidx, hdef]; exact ⟨[], rfl⟩
  · simp only
    rw [ty_getD_setAt_self _ _ _ hidx]
    have hslot := slotsTyped_getD s S _ _ idx f h.2 hf
    generalize st.slots.getD idx .ph = v at hslot
    have hopt := wfField_rep hw hr
    cases v with
    | ph => exact ⟨[], by simp [materialize, hdef]⟩
    | none => rw [slotTypedB] at hslot; simp [noneOkB, hopt, FieldD.defKind, hr] at hslot
    | list xs => exact ⟨xs, rfl⟩
    | dict ks vs => rw [slotTypedB] at hslot; simp [hr] at hslot
    | msg c sl ow unk cur => rw [slotTypedB] at hslot; simp [singularB, hr] at hslot
    | _ => simp [slotTypedB, singularB, hr] at hslot


theorem storeValue_typed (s : Bool) (S : Schema) (d : MsgD) (st1 st' : MState) (idx : Nat) (f : FieldD)
    (value : Val) (hf : d.fields[idx]? = some f) (h : StTyped s S d st1)
    (hv : decodedOkB s S f value = true)
    (hcur : f.repeated = true → ∃ xs, st1.slots.getD idx .ph = .list xs)
    (hs : storeValue S d st1 idx f value = .ok st') : StTyped s S d st' := by
  have hslot := slotsTyped_getD s S _ _ idx f h.2 hf
  unfold storeValue at hs
  simp only at hs
  split at hs
  · -- map entry
    split at hs
    · rename_i ks vs k v hc
      injection hs with hs; subst hs
      rw [hc, slotTypedB] at hslot
      simp only [Bool.and_eq_true, beq_iff_eq, Bool.not_eq_true'] at hslot
      obtain ⟨⟨⟨⟨h1, h2⟩, h3⟩, h4⟩, h5⟩ := hslot
      simp only [decodedOkB, Bool.and_eq_true] at hv
      obtain ⟨i1, i2, i3⟩ := dictInsert_typed s S _ _ k v hv.1.2 hv.2 ks vs h3 h4 h5
      refine ⟨h.1, slotsTyped_set s S _ _ idx f _ h.2 hf ?_⟩
      rw [slotTypedB]
      simp [h1, h2, i1, i2, i3]
    · simp at hs
  · rename_i hnm
    have hnm' : f.ty ≠ .map := by simpa using hnm
    split at hs
    · rename_i xs hc
      rw [hc, slotTypedB] at hslot
      simp only [Bool.and_eq_true] at hslot
      split at hs
      · rename_i ys
        injection hs with hs; subst hs
        simp only [decodedOkB, Bool.and_eq_true] at hv
        refine ⟨h.1, slotsTyped_set s S _ _ idx f _ h.2 hf ?_⟩
        rw [slotTypedB, items_append]
        simp [hslot.1, hslot.2, hv.2]
      · rename_i hny
        injection hs with hs; subst hs
        have hy : itemsTypedB s S f [value] = true := by
          cases value with
          | list ys => exact absurd rfl (hny ys)
          | dict ks vs => simp [decodedOkB, hnm'] at hv
          | _ => exact hv
        refine ⟨h.1, slotsTyped_set s S _ _ idx f _ h.2 hf ?_⟩
        rw [slotTypedB, items_append]
        simp [hslot.1, hslot.2, hy]
    · rename_i hnl
      injection hs with hs; subst hs
      apply setAttr_typed s S d st1 idx f value hf h
      have hrep : f.repeated = false := by
        cases hr : f.repeated with
        | false => rfl
        | true => obtain ⟨xs, hx⟩ := hcur hr; exact absurd hx (hnl xs)
      cases value with
      | list vs =>
        simp only [decodedOkB, Bool.and_eq_true] at hv
        rw [hrep] at hv; simp at hv
      | dict ks vs => simp [decodedOkB, hnm'] at hv
      | _ => exact item_slot s S f _ hv (by simp [singularB, hrep, hnm'])

theorem applyField_typed (s : Bool) (S : Schema) (rec : Loader) (hrec : LoaderOk s S rec) (hS : WfSchemaT S)
    (d : MsgD) (hd : WfD S d) (st st' : MState) (pf : PField) (hb : s = true → WfBytes pf.payload)
    (h : StTyped s S d st) (ha : applyField S rec d st pf = .ok st') : StTyped s S d st' := by
  unfold applyField at ha
  split at ha
  · injection ha with ha; subst ha; exact h
  · rename_i idx hidx
    split at ha
    · simp at ha
    · rename_i f hf
      have hw := hd f (List.mem_of_getElem? hf)
      split at ha
      · injection ha with ha; subst ha; exact h
      · rename_i hfit
        have hfit' : wireFits f pf.wt = true := by simpa using hfit
        cases hv : decodeValue S rec f pf with
        | error e => rw [hv] at ha; simp at ha
        | ok value =>
          rw [hv] at ha; simp only [bind_ok] at ha
          exact storeValue_typed s S d _ st' idx f value hf (prepCurrent_typed s S d st idx f hf hw h)
            (decodeValue_typed s S rec hrec hS f pf value hw hfit' hb hv)
            (prepCurrent_list s S d st idx f hf hw h) ha

theorem foldFields_typed (s : Bool) (S : Schema) (rec : Loader) (hrec : LoaderOk s S rec) (hS : WfSchemaT S)
    (d : MsgD) (hd : WfD S d) (pfs : List PField) (hb : s = true → ∀ pf ∈ pfs, WfBytes pf.payload)
    (st st' : MState) (h : StTyped s S d st) (hf : foldFields S rec d st pfs = .ok st') :
    StTyped s S d st' := by
  induction pfs generalizing st with
  | nil => rw [foldFields] at hf; injection hf with hf; subst hf; exact h
  | cons pf pfs ih =>
    rw [foldFields] at hf
    cases ha : applyField S rec d st pf with
    | error e => rw [ha] at hf; simp at hf
    | ok s1 =>
      rw [ha] at hf; simp only [bind_ok] at hf
      exact ih (fun hs x hx => hb hs x (by simp [hx])) s1
        (applyField_typed s S rec hrec hS d hd st s1 pf (fun hs => hb hs pf (by simp)) h ha) hf

/-- the payload of every record is made of bytes of the input -/
theorem loadFields_payload_mem (bs : Bytes) (pfs : List PField) (h : loadFields bs = .ok pfs) :
    ∀ pf ∈ pfs, ∀ b ∈ pf.payload, b ∈ bs := by
  induction hn : bs.length using Nat.strongRecOn generalizing bs pfs with
  | _ n ih =>
    cases bs with
    | nil => rw [loadFields_nil] at h; simp at h; subst h; intro _ hm; simp at hm
    | cons b0 bs =>
      cases hlf : loadField (b0 :: bs) with
      | error e => rw [loadFields_cons_err _ e (by simp) hlf] at h; simp at h
      | ok r =>
        obtain ⟨pf, rest⟩ := r
        rw [loadFields_cons _ pf rest (by simp) hlf] at h
        have ok := loadField_ok _ _ _ hlf
        cases hr : loadFields rest with
        | error e => rw [hr] at h; simp [Except.bind] at h
        | ok pfs' =>
          rw [hr] at h
          simp [Except.bind] at h
          subst h
          have hlen : rest.length < n := by
            have := congrArg List.length ok.raw_rest
            simp only [List.length_append] at this
            have := ok.raw_pos
            omega
          intro x hx
          simp at hx
          rcases hx with hx | hx
          · subst hx
            intro b hb
            -- the payload is a slice of the input
            unfold loadField at hlf
            split at hlf
            · simp at hlf
            · rename_i nw k hk
              split at hlf
              · simp at hlf
              · split at hlf
                · simp at hlf
                · rename_i v p c hp
                  simp at hlf
                  obtain ⟨h1, h2⟩ := hlf
                  subst h1
                  simp only at hb
                  have hsub : ∀ b ∈ p, b ∈ List.drop k (b0 :: bs) := by
                    unfold loadPayload at hp
                    split at hp
                    · split at hp
                      · simp at hp
                      · simp at hp; obtain ⟨_, h3, _⟩ := hp; subst h3; intro b hb; simp at hb
                    · split at hp
                      · split at hp
                        · simp at hp
                        · simp at hp; obtain ⟨_, h3, _⟩ := hp; subst h3
                          intro b hb; exact List.mem_of_mem_take hb
                      · split at hp
                        · split at hp
                          · simp at hp
                          · split at hp
                            · simp at hp
                            · simp at hp; obtain ⟨_, h3, _⟩ := hp; subst h3
                              intro b hb
                              have := List.mem_of_mem_take hb
                              rw [← List.drop_drop] at this
                              exact List.mem_of_mem_drop this
                        · split at hp
                          · split at hp
                            · simp at hp
                            · simp at hp; obtain ⟨_, h3, _⟩ := hp; subst h3
                              intro b hb; exact List.mem_of_mem_take hb
                          · simp at hp
                  exact List.mem_of_mem_drop (hsub b hb)
          · intro b hb
            have := ih rest.length hlen rest pfs' hr rfl x hx b hb
            rw [← ok.raw_rest]
            exact List.mem_append_right _ this

theorem loadInto_typed (s : Bool) (S : Schema) (hS : WfSchemaT S) :
    ∀ fuel : Nat, LoaderOk s S (loadInto S fuel) := by
  intro fuel
  induction fuel with
  | zero => intro d st bs st' _ _ _ hl; simp [loadInto] at hl
  | succ fuel ih =>
    intro d st bs st' hd hb h hl
    rw [loadInto_succ] at hl
    cases hp : loadFields bs with
    | error e => rw [hp] at hl; simp at hl
    | ok pfs =>
      rw [hp] at hl; simp only [bind_ok] at hl
      have hmem := loadFields_payload_mem bs pfs hp
      exact foldFields_typed s S _ ih hS d hd pfs
        (fun hs pf hpf b hbm => hb hs b (hmem pf hpf b hbm)) { st with onWire := true } st' ⟨h.1, h.2⟩ hl

/-- `msgTypedB s S m` for everything `parse` returns -/
theorem parse_typed (s : Bool) (S : Schema) (hS : WfSchemaT S) (c : Nat) (bs : Bytes) (m : Val)
    (hb : s = true → WfBytes bs) (h : parse S c bs = .ok m) : msgTypedB s S m = true := by
  unfold parse at h
  cases hd : S[c]? with
  | none => simp [fresh, parseInto, hd] at h
  | some d =>
    rw [fresh_eq S c d hd] at h
    simp only [parseInto, hd] at h
    cases hl : loadInto S (bs.length + 1) d
        { slots := (freshState d).slots, onWire := false, unknown := [], cur := (freshState d).cur } bs with
    | error e => rw [hl] at h; simp at h
    | ok st =>
      rw [hl] at h; simp only [bind_ok] at h
      injection h with h; subst h
      have hst := loadInto_typed s S hS _ d _ bs st (wfSchema_class S hS c d hd) hb
        (freshState_typed s S d) hl
      simp [MState.toVal, msgTypedB, hd, hst.1, hst.2]

/-! ### the encoder is total on typed values -/

theorem dumpVarint_total (v : Int) (h : -9223372036854775808 ≤ v) : ∃ b, dumpVarint v = .ok b := by
  unfold dumpVarint two63
  have h1 : ¬ (v < -9223372036854775808) := by omega
  simp only [h1, if_false]
  split <;> exact ⟨_, rfl⟩

theorem frame_total (num : Nat) (t : PType) (pre : Bytes) (se wr : Bool) : ∃ b, frame num t pre se wr = .ok b := by
  unfold frame
  simp only [dumpVarint_nat, Except.bind]
  cases t <;> simp [wireVarintTypes, wireFixed32Types, wireFixed64Types, wireLenDelimTypes] <;>
    (split <;> simp)

theorem prepPlain_total (t : PType) (v : Val) (h : scalarTypedB true t v = true) : ∃ b, prepPlain t v = .ok b := by
  cases v <;> simp [scalarTypedB] at h
  · -- int
    rename_i i
    obtain ⟨hi, he⟩ := h
    cases t <;> simp [isIntTy] at hi <;> simp [intEncB] at he <;>
      simp [prepPlain, isFixed, fixedTypes, asInt, packFixed, fmtOf, packFmt, he]
    all_goals first
      | exact dumpVarint_total _ he
      | exact dumpVarint_total _ (by have := zig_nonneg i; omega)
  · subst h; simp [prepPlain, asInt]; split <;> exact dumpVarint_total _ (by omega)
  · obtain ⟨ht, hb⟩ := h; subst ht; simp [prepPlain, isFixed, fixedTypes, packFixed, fmtOf, packFmt, hb]
  · obtain ⟨ht, hb⟩ := h; subst ht; simp [prepPlain, isFixed, fixedTypes, packFixed, fmtOf, packFmt, hb]
  · obtain ⟨ht, _⟩ := h; subst ht; simp [prepPlain, isFixed, fixedTypes]
  · subst h; simp [prepPlain, isFixed, fixedTypes]

theorem secNanosBytes_total (sec n : Int) (h1 : -9223372036854775808 ≤ sec) (h2 : -9223372036854775808 ≤ n) :
    ∃ b, secNanosBytes sec n = .ok b := by
  unfold secNanosBytes
  obtain ⟨a, ha⟩ : ∃ a, (if sec == 0 then (.ok [] : R Bytes)
      else (dumpVarint sec).bind fun b => frame 1 .int64 b false false) = .ok a := by
    split
    · exact ⟨_, rfl⟩
    · obtain ⟨b, hb⟩ := dumpVarint_total sec h1
      rw [hb]; exact frame_total _ _ _ _ _
  obtain ⟨c, hc⟩ : ∃ a, (if n == 0 then (.ok [] : R Bytes)
      else (dumpVarint n).bind fun b => frame 2 .int32 b false false) = .ok a := by
    split
    · exact ⟨_, rfl⟩
    · obtain ⟨b, hb⟩ := dumpVarint_total n h2
      rw [hb]; exact frame_total _ _ _ _ _
  rw [ha, hc]; exact ⟨_, rfl⟩

theorem tsBytes_total (us : Int) (h : tsRangeB us = true) : ∃ b, tsBytes us = .ok b := by
  unfold tsRangeB tsMinUs tsMaxUs at h
  simp only [Bool.and_eq_true, decide_eq_true_eq] at h
  unfold tsBytes tsSplit
  exact secNanosBytes_total _ _ (by omega) (by omega)

theorem durBytes_total (us : Int) (h : durRangeB us = true) : ∃ b, durBytes us = .ok b := by
  unfold durRangeB durMinUs durMaxUs at h
  simp only [Bool.and_eq_true, decide_eq_true_eq] at h
  unfold durBytes durSplit
  simp only
  split <;> exact secNanosBytes_total _ _ (by omega) (by omega)

theorem wrapperBytes_total (S : Schema) (w : PType) (v : Val) (h : scalarTypedB true w v = true) :
    ∃ b, wrapperBytes S w v = .ok b := by
  unfold wrapperBytes
  split
  · exact ⟨_, rfl⟩
  · obtain ⟨p, hp⟩ := prepPlain_total w v h
    rw [hp]; exact frame_total _ _ _ _ _

theorem scalarTyped_ne_message (s : Bool) (v : Val) : scalarTypedB s .message v = false := by
  cases v <;> simp [scalarTypedB, isIntTy]

/-- `_serialize_single` succeeds on every typed element that is not a message instance -/
theorem serializeScalar_total (S : Schema) (f : FieldD) (num : Nat) (v : Val) (se : Bool)
    (h : leafTypedB true f v = true) : ∃ b, serializeScalar S num f.ty v se f.wraps = .ok b := by
  unfold serializeScalar
  suffices hp : ∃ p, prepScalar S f.ty f.wraps v = .ok p by
    obtain ⟨p, hp⟩ := hp
    rw [hp]; exact frame_total _ _ _ _ _
  unfold prepScalar
  by_cases hm : f.ty = .message
  · simp only [hm, beq_self_eq_true, if_true]
    cases v <;> simp [leafTypedB] at h
    case ts us => exact tsBytes_total us h.2
    case dur us => exact durBytes_total us h.2
    all_goals
      (unfold elemTy at h
       simp only [hm, beq_self_eq_true, if_true] at h
       cases hk : f.kind <;> cases hwr : f.wraps <;> simp [hk, hwr] at h
       exact wrapperBytes_total S _ _ h)
  · have hm' : (f.ty == PType.message) = false := by simpa using hm
    simp only [hm', Bool.false_eq_true, if_false]
    apply prepPlain_total
    cases v <;> simp [leafTypedB, hm, elemTy_plain f hm] at h <;> exact h

theorem defKind_msg (f : FieldD) (c : Nat) (h : f.defKind = .msg c) : f.ty = .message := by
  unfold FieldD.defKind at h
  split at h
  · simp at h
  · split at h
    · simp at h
    · split at h
      · simp at h
      · split at h
        · rename_i hm; simpa using hm
        · cases ht : f.ty <;> simp [ht, scalarDef] at h

theorem dumpDefault_total (S : Schema) (f : FieldD) (sel : Bool) (hw : wfFieldB S.length f = true) :
    ∃ b, dumpDefault S f sel = .ok b := by
  have hdef := defaultOf_typed true S f hw
  unfold defaultOf at hdef
  unfold dumpDefault
  cases hk : f.defKind <;> rw [hk] at hdef <;> simp only [defaultOfKind] at hdef
  case none => exact ⟨_, rfl⟩
  case list =>
    simp only
    split
    · exact ⟨_, rfl⟩
    · split
      · exact frame_total _ _ _ _ _
      · exact ⟨_, rfl⟩
  case dict =>
    simp only
    split <;> exact ⟨_, rfl⟩
  case msg c =>
    simp only
    split
    · exact ⟨_, rfl⟩
    · rw [defKind_msg f c hk]
      simp only [beq_self_eq_true, if_true]
      exact frame_total _ _ _ _ _
  all_goals
    (simp only
     split
     · exact ⟨_, rfl⟩
     · simp only [defaultOfKind]
       simp only [slotTypedB, Bool.and_eq_true] at hdef
       exact serializeScalar_total S f _ _ _ hdef.2)

theorem prepPacked_total (S : Schema) (f : FieldD) (hp : isPacked f.ty = true) :
    ∀ xs : List Val, itemsTypedB true S f xs = true → ∃ b, prepPacked S f.ty xs = .ok b
  | [], _ => ⟨[], rfl⟩
  | x :: xs, h => by
    have hne : f.ty ≠ .message := by intro e; rw [e] at hp; simp [isPacked, packedTypes] at hp
    rw [items_cons] at h
    simp only [Bool.and_eq_true] at h
    obtain ⟨b, hb⟩ := prepPacked_total S f hp xs h.2
    obtain ⟨a, ha⟩ := prepPlain_total f.ty x (item_scalar true S f x hne h.1)
    have hm' : (f.ty == PType.message) = false := by simpa using hne
    rw [prepPacked]
    simp only [prepScalar, hm', Bool.false_eq_true, if_false, ha, hb]
    exact ⟨_, rfl⟩

theorem fieldsOf_some (S : Schema) (c : Nat) (d : MsgD) (h : S[c]? = some d) : fieldsOf S c = d.fields := by
  simp [fieldsOf, h]

mutual
theorem dumpSlot_total (S : Schema) (hS : WfSchemaT S) (f : FieldD) (hw : wfFieldB S.length f = true)
    (hid sel : Bool) : ∀ (v : Val), slotTypedB true S f v = true → ∃ b, dumpSlot S f hid sel v = .ok b
  | .ph, _ => by
    rw [dumpSlot]
    split
    · exact ⟨_, rfl⟩
    · exact dumpDefault_total S f sel hw
  | .none, _ => ⟨[], by rw [dumpSlot]⟩
  | .list xs, h => by
    rw [slotTypedB] at h
    simp only [Bool.and_eq_true] at h
    rw [dumpSlot]
    split
    · exact ⟨_, rfl⟩
    · simp only
      split
      · exact ⟨_, rfl⟩
      · split
        · rename_i hp
          obtain ⟨b, hb⟩ := prepPacked_total S f hp xs h.2
          rw [hb]; exact frame_total _ _ _ _ _
        · exact dumpItems_total S hS f xs h.2
  | .dict ks vs, h => by
    rw [slotTypedB] at h
    simp only [Bool.and_eq_true, beq_iff_eq] at h
    rw [dumpSlot]
    split
    · exact ⟨_, rfl⟩
    · simp only
      split
      · exact ⟨_, rfl⟩
      · exact dumpEntries_total S hS f hw h.1.1.1.1 ks vs h.1.2 h.2
  | .msg c sl ow unk cur, h => by
    rw [slotTypedB] at h
    simp only [Bool.and_eq_true] at h
    obtain ⟨⟨_, hmf⟩, hbody⟩ := h
    unfold msgFieldB at hmf
    simp only [Bool.and_eq_true, beq_iff_eq, Option.isNone_iff_eq_none] at hmf
    rw [dumpSlot]
    split
    · exact ⟨_, rfl⟩
    · simp only
      split
      · exact ⟨_, rfl⟩
      · cases hd : S[c]? with
        | none => rw [hd] at hbody; simp at hbody
        | some d =>
          rw [hd] at hbody
          simp only [Bool.and_eq_true] at hbody
          obtain ⟨b, hb⟩ := dumpSlots_total S hS (fieldsOf S c) cur sl d.fields 0 hbody.2
            (by intro j; rw [fieldsOf_some S c d hd]; simp) (wfSchema_class S hS c d hd)
          rw [hb]
          simp only [bind_ok, hmf.1.1, hmf.2, beq_self_eq_true, Option.isNone_none, Bool.and_self, if_true]
          exact frame_total _ _ _ _ _
  | .int _, h | .bool _, h | .f32 _, h | .f64 _, h | .str _, h | .byt _, h | .ts _, h | .dur _, h => by
    simp only [slotTypedB, Bool.and_eq_true] at h
    rw [dumpSlot_plain _ _ _ _ _ rfl]
    split
    · exact ⟨_, rfl⟩
    · split
      · exact ⟨_, rfl⟩
      · exact serializeScalar_total S f _ _ _ h.2

theorem dumpSlots_total (S : Schema) (hS : WfSchemaT S) (fs : List FieldD) (cur : List (Option Nat)) :
    ∀ (sl : List Val) (fs' : List FieldD) (idx : Nat), slotsTypedB true S fs' sl = true →
      (∀ j, fs[idx + j]? = fs'[j]?) → (∀ f ∈ fs', wfFieldB S.length f = true) →
      ∃ b, dumpSlots S fs cur idx sl = .ok b
  | [], _, _, _, _, _ => ⟨[], by rw [dumpSlots]⟩
  | _ :: _, [], _, h, _, _ => by simp [slotsTypedB] at h
  | v :: vs, f :: fs', idx, h, hfs, hwf => by
    rw [slotsTypedB] at h
    simp only [Bool.and_eq_true] at h
    have hf : fs[idx]? = some f := by simpa using hfs 0
    rw [dumpSlots]
    simp only [hf]
    obtain ⟨a, ha⟩ := dumpSlot_total S hS f (hwf f (by simp)) (hidden f idx cur) (selectedInGroup f idx cur) v h.1
    obtain ⟨b, hb⟩ := dumpSlots_total S hS fs cur vs fs' (idx + 1) h.2
      (by intro j; have := hfs (j + 1); simpa [Nat.add_assoc, Nat.add_comm 1 j] using this)
      (fun g hg => hwf g (by simp [hg]))
    rw [ha, hb]; exact ⟨_, rfl⟩

theorem dumpItems_total (S : Schema) (hS : WfSchemaT S) (f : FieldD) :
    ∀ (xs : List Val), itemsTypedB true S f xs = true → ∃ b, dumpItems S f xs = .ok b
  | [], _ => ⟨[], by rw [dumpItems]⟩
  | .msg c sl ow unk cur :: xs, h => by
    rw [itemsTypedB] at h
    simp only [Bool.and_eq_true] at h
    obtain ⟨⟨hmf, hbody⟩, hrest⟩ := h
    unfold msgFieldB at hmf
    simp only [Bool.and_eq_true, beq_iff_eq, Option.isNone_iff_eq_none] at hmf
    obtain ⟨r, hr⟩ := dumpItems_total S hS f xs hrest
    cases hd : S[c]? with
    | none => rw [hd] at hbody; simp at hbody
    | some d =>
      rw [hd] at hbody
      simp only [Bool.and_eq_true] at hbody
      obtain ⟨b, hb⟩ := dumpSlots_total S hS (fieldsOf S c) cur sl d.fields 0 hbody.2
        (by intro j; rw [fieldsOf_some S c d hd]; simp) (wfSchema_class S hS c d hd)
      rw [dumpItems]
      simp only [hb, bind_ok, hmf.1.1, hmf.2, beq_self_eq_true, Option.isNone_none, Bool.and_self, if_true]
      obtain ⟨a, ha⟩ := frame_total f.num PType.message (b ++ unk) true false
      rw [ha, hr]; exact ⟨_, rfl⟩
  | .ph :: xs, h | .none :: xs, h | .list _ :: xs, h | .dict _ _ :: xs, h => by
    simp [itemsTypedB, leafTypedB] at h
  | .int _ :: xs, h | .bool _ :: xs, h | .f32 _ :: xs, h | .f64 _ :: xs, h | .str _ :: xs, h
  | .byt _ :: xs, h | .ts _ :: xs, h | .dur _ :: xs, h => by
    simp only [itemsTypedB, Bool.and_eq_true] at h
    obtain ⟨r, hr⟩ := dumpItems_total S hS f xs h.2
    obtain ⟨a, ha⟩ := serializeScalar_total S f f.num _ true h.1
    rw [dumpItems]
    · simp only [ha, hr]
      exact ⟨_, rfl⟩
    all_goals (intros; contradiction)

theorem dumpEntries_total (S : Schema) (hS : WfSchemaT S) (f : FieldD) (hw : wfFieldB S.length f = true)
    (ht : f.ty = .map) :
    ∀ (ks vs : List Val), itemsTypedB true S (keyFieldOf f) ks = true → itemsTypedB true S (valFieldOf f) vs = true →
      ∃ b, dumpEntries S f ks vs = .ok b
  | [], _, _, _ => ⟨[], by rw [dumpEntries]; all_goals (intros; contradiction)⟩
  | _ :: _, [], _, _ => ⟨[], by rw [dumpEntries]; all_goals (intros; contradiction)⟩
  | k :: ks, .msg c sl ow unk cur :: vs, hk, hv => by
    rw [items_cons] at hk
    simp only [Bool.and_eq_true] at hk
    rw [itemsTypedB] at hv
    simp only [Bool.and_eq_true] at hv
    obtain ⟨⟨hmf, hbody⟩, hrest⟩ := hv
    unfold msgFieldB at hmf
    simp only [Bool.and_eq_true, beq_iff_eq, Option.isNone_iff_eq_none] at hmf
    have hmv : f.mapV = .message := hmf.1.1
    obtain ⟨r, hr⟩ := dumpEntries_total S hS f hw ht ks vs hk.2 hrest
    obtain ⟨hsk, _, _⟩ := wfField_map hw ht
    unfold isScalarTy at hsk
    simp only [Bool.and_eq_true, bne_iff_ne, ne_eq] at hsk
    have hkl : leafTypedB true (keyFieldOf f) k = true := by
      apply leaf_of_scalar true (keyFieldOf f) f.mapK k (elemTy_plain (keyFieldOf f) hsk.1)
      exact item_scalar true S (keyFieldOf f) k hsk.1 hk.1
    obtain ⟨sk, hsk'⟩ := serializeScalar_total S (keyFieldOf f) 1 k false hkl
    cases hd : S[c]? with
    | none => rw [hd] at hbody; simp at hbody
    | some d =>
      rw [hd] at hbody
      simp only [Bool.and_eq_true] at hbody
      obtain ⟨b, hb⟩ := dumpSlots_total S hS (fieldsOf S c) cur sl d.fields 0 hbody.2
        (by intro j; rw [fieldsOf_some S c d hd]; simp) (wfSchema_class S hS c d hd)
      rw [dumpEntries]
      have hsk2 : serializeScalar S 1 f.mapK k false Option.none = .ok sk := hsk'
      simp only [hsk2, hb, bind_ok, hmv, beq_self_eq_true, if_true]
      obtain ⟨sv, hsv⟩ := frame_total 2 PType.message (b ++ unk) false false
      obtain ⟨e, he⟩ := frame_total f.num f.ty (sk ++ sv) true false
      rw [hsv]; simp only [bind_ok]; rw [he, hr]; exact ⟨_, rfl⟩
  | k :: ks, .ph :: vs, _, hv | k :: ks, .none :: vs, _, hv | k :: ks, .list _ :: vs, _, hv
  | k :: ks, .dict _ _ :: vs, _, hv => by
    simp [itemsTypedB, leafTypedB] at hv
  | k :: ks, .int _ :: vs, hk, hv | k :: ks, .bool _ :: vs, hk, hv | k :: ks, .f32 _ :: vs, hk, hv
  | k :: ks, .f64 _ :: vs, hk, hv | k :: ks, .str _ :: vs, hk, hv | k :: ks, .byt _ :: vs, hk, hv
  | k :: ks, .ts _ :: vs, hk, hv | k :: ks, .dur _ :: vs, hk, hv => by
    rw [items_cons] at hk
    simp only [Bool.and_eq_true] at hk
    simp only [itemsTypedB, Bool.and_eq_true] at hv
    obtain ⟨r, hr⟩ := dumpEntries_total S hS f hw ht ks vs hk.2 hv.2
    obtain ⟨hsk, _, _⟩ := wfField_map hw ht
    unfold isScalarTy at hsk
    simp only [Bool.and_eq_true, bne_iff_ne, ne_eq] at hsk
    have hkl : leafTypedB true (keyFieldOf f) k = true := by
      apply leaf_of_scalar true (keyFieldOf f) f.mapK k (elemTy_plain (keyFieldOf f) hsk.1)
      exact item_scalar true S (keyFieldOf f) k hsk.1 hk.1
    obtain ⟨sk, hsk'⟩ := serializeScalar_total S (keyFieldOf f) 1 k false hkl
    obtain ⟨sv, hsv'⟩ := serializeScalar_total S (valFieldOf f) 2 _ false hv.1
    have hsk2 : serializeScalar S 1 f.mapK k false Option.none = .ok sk := hsk'
    rw [dumpEntries]
    · have hsv2 := hsv'
      simp only [valFieldOf] at hsv2
      simp only [hsk2, hsv2, bind_ok]
      obtain ⟨e, he⟩ := frame_total f.num f.ty (sk ++ sv) true false
      rw [he, hr]; exact ⟨_, rfl⟩
    all_goals (intros; contradiction)
end

/-- **a typed message of the encoder's domain can be encoded** -/
theorem dumpVal_total (S : Schema) (hS : WfSchemaT S) (m : Val) (h : msgTypedB true S m = true) :
    ∃ bs', dumpVal S m = .ok bs' := by
  cases m <;> simp [msgTypedB] at h
  rename_i c sl ow unk cur
  cases hd : S[c]? with
  | none => rw [hd] at h; simp at h
  | some d =>
    rw [hd] at h
    simp only [Bool.and_eq_true] at h
    obtain ⟨b, hb⟩ := dumpSlots_total S hS (fieldsOf S c) cur sl d.fields 0 h.2
      (by intro j; rw [fieldsOf_some S c d hd]; simp) (wfSchema_class S hS c d hd)
    rw [dumpVal, hb]; exact ⟨_, rfl⟩

/-! ### the encoder's domain is included in the Python typing -/

theorem scalarTyped_weaken (t : PType) (v : Val) (h : scalarTypedB true t v = true) :
    scalarTypedB false t v = true := by
  cases v <;> simp [scalarTypedB] at h ⊢ <;> simp [h]

theorem leafTyped_weaken (f : FieldD) (v : Val) (h : leafTypedB true f v = true) :
    leafTypedB false f v = true := by
  cases v <;> simp [leafTypedB] at h ⊢
  case ts => exact h.1
  case dur => exact h.1
  all_goals
    (cases he : elemTy f with
     | none => rw [he] at h; simp at h
     | some t => rw [he] at h; exact scalarTyped_weaken t _ h)

mutual
theorem slotTyped_weaken (S : Schema) (f : FieldD) :
    ∀ v : Val, slotTypedB true S f v = true → slotTypedB false S f v = true
  | .ph, _ => slotTypedB_ph _ _ _
  | .none, h => by rw [slotTypedB] at h ⊢; exact h
  | .list xs, h => by
    rw [slotTypedB] at h ⊢
    simp only [Bool.and_eq_true] at h ⊢
    exact ⟨h.1, itemsTyped_weaken S f xs h.2⟩
  | .dict ks vs, h => by
    rw [slotTypedB] at h ⊢
    simp only [Bool.and_eq_true] at h ⊢
    exact ⟨⟨h.1.1, itemsTyped_weaken S _ ks h.1.2⟩, itemsTyped_weaken S _ vs h.2⟩
  | .msg c sl ow unk cur, h => by
    rw [slotTypedB] at h ⊢
    simp only [Bool.and_eq_true] at h ⊢
    refine ⟨h.1, ?_⟩
    cases hd : S[c]? with
    | none => rw [hd] at h; simp at h
    | some d =>
      rw [hd] at h
      simp only [Bool.and_eq_true] at h ⊢
      exact ⟨h.2.1, slotsTyped_weaken S d.fields sl h.2.2⟩
  | .int _, h | .bool _, h | .f32 _, h | .f64 _, h | .str _, h | .byt _, h | .ts _, h | .dur _, h => by
    simp only [slotTypedB, Bool.and_eq_true] at h ⊢
    exact ⟨h.1, leafTyped_weaken f _ h.2⟩

theorem itemsTyped_weaken (S : Schema) (f : FieldD) :
    ∀ xs : List Val, itemsTypedB true S f xs = true → itemsTypedB false S f xs = true
  | [], _ => by rw [itemsTypedB]
  | .msg c sl ow unk cur :: xs, h => by
    rw [itemsTypedB] at h ⊢
    simp only [Bool.and_eq_true] at h ⊢
    refine ⟨⟨h.1.1, ?_⟩, itemsTyped_weaken S f xs h.2⟩
    cases hd : S[c]? with
    | none => rw [hd] at h; simp at h
    | some d =>
      rw [hd] at h
      simp only [Bool.and_eq_true] at h ⊢
      exact ⟨h.1.2.1, slotsTyped_weaken S d.fields sl h.1.2.2⟩
  | .ph :: xs, h | .none :: xs, h | .list _ :: xs, h | .dict _ _ :: xs, h => by
    simp [itemsTypedB, leafTypedB] at h
  | .int _ :: xs, h | .bool _ :: xs, h | .f32 _ :: xs, h | .f64 _ :: xs, h | .str _ :: xs, h
  | .byt _ :: xs, h | .ts _ :: xs, h | .dur _ :: xs, h => by
    simp only [itemsTypedB, Bool.and_eq_true] at h ⊢
    exact ⟨leafTyped_weaken f _ h.1, itemsTyped_weaken S f xs h.2⟩

theorem slotsTyped_weaken (S : Schema) :
    ∀ (fs : List FieldD) (sl : List Val), slotsTypedB true S fs sl = true → slotsTypedB false S fs sl = true
  | [], [], _ => by rw [slotsTypedB]
  | f :: fs, v :: vs, h => by
    rw [slotsTypedB] at h ⊢
    simp only [Bool.and_eq_true] at h ⊢
    exact ⟨slotTyped_weaken S f v h.1, slotsTyped_weaken S fs vs h.2⟩
  | [], _ :: _, h => by simp [slotsTypedB] at h
  | _ :: _, [], h => by simp [slotsTypedB] at h
end

theorem msgTyped_weaken (S : Schema) (m : Val) (h : msgTypedB true S m = true) : msgTypedB false S m = true := by
  cases m <;> simp [msgTypedB] at h
  rename_i c sl ow unk cur
  unfold msgTypedB
  cases hd : S[c]? with
  | none => rw [hd] at h; simp at h
  | some d =>
    rw [hd] at h
    simp only [hd, Bool.and_eq_true] at h ⊢
    exact ⟨h.1, slotsTyped_weaken S d.fields sl h.2⟩

/-! ### the statements -/

/-- the raw slot value `v` of field `f` has the Python type the field declares -/
def PyTyped (S : Schema) (f : FieldD) (v : Val) : Prop := slotTypedB false S f v = true

/-- every field of the message (and, recursively, of every message it contains) holds a
    value of its declared Python type -/
def MsgTyped (S : Schema) (m : Val) : Prop := msgTypedB false S m = true

/-- … and every leaf lies in the domain of the encoder -/
def MsgEnc (S : Schema) (m : Val) : Prop := msgTypedB true S m = true

instance (S : Schema) (f : FieldD) (v : Val) : Decidable (PyTyped S f v) := by unfold PyTyped; infer_instance
instance (S : Schema) (m : Val) : Decidable (MsgTyped S m) := by unfold MsgTyped; infer_instance
instance (S : Schema) (m : Val) : Decidable (MsgEnc S m) := by unfold MsgEnc; infer_instance

theorem slotsTyped_iff (s : Bool) (S : Schema) :
    ∀ (fs : List FieldD) (sl : List Val), slotsTypedB s S fs sl = true ↔
      sl.length = fs.length ∧ ∀ i f, fs[i]? = some f → slotTypedB s S f (sl.getD i .ph) = true
  | [], [] => by simp [slotsTypedB]
  | [], _ :: _ => by simp [slotsTypedB]
  | _ :: _, [] => by simp [slotsTypedB]
  | f0 :: fs, v :: vs => by
    rw [slotsTypedB, Bool.and_eq_true, slotsTyped_iff s S fs vs]
    constructor
    · rintro ⟨h0, hl, hr⟩
      refine ⟨by simp [hl], ?_⟩
      intro i f hf
      cases i with
      | zero => simp at hf; subst hf; simpa using h0
      | succ i => simp at hf; simpa using hr i f hf
    · rintro ⟨hl, hr⟩
      refine ⟨by simpa using hr 0 f0 rfl, by simpa using hl, ?_⟩
      intro i f hf
      simpa using hr (i + 1) f (by simpa using hf)

/-- what `MsgTyped` says, unfolded one level -/
theorem msgTyped_iff (S : Schema) (c : Nat) (sl : List Val) (ow : Bool) (unk : Bytes) (cur : List (Option Nat)) :
    MsgTyped S (.msg c sl ow unk cur) ↔
      ∃ d, S[c]? = some d ∧ cur.length = d.nGroups ∧ sl.length = d.fields.length
        ∧ ∀ i f, d.fields[i]? = some f → PyTyped S f (sl.getD i .ph) := by
  unfold MsgTyped msgTypedB PyTyped
  cases hd : S[c]? with
  | none => simp [hd]
  | some d => simp [hd, slotsTyped_iff]

/-- **C17**: whatever `parse` returns is a typed message — for every list of numbers, bytes or not -/
theorem parse_msgTyped (S : Schema) (hS : WfSchemaT S) (c : Nat) (bs : Bytes) (m : Val)
    (h : parse S c bs = .ok m) : MsgTyped S m :=
  parse_typed false S hS c bs m (fun hs => absurd hs (by decide)) h

/-- for an input made of bytes the result lies in the encoder's domain … -/
theorem parse_msgEnc (S : Schema) (hS : WfSchemaT S) (c : Nat) (bs : Bytes) (m : Val) (hb : WfBytes bs)
    (h : parse S c bs = .ok m) : MsgEnc S m :=
  parse_typed true S hS c bs m (fun _ => hb) h

/-- … and can be encoded again -/
theorem parse_reencodes (S : Schema) (hS : WfSchemaT S) (c : Nat) (bs : Bytes) (m : Val) (hb : WfBytes bs)
    (h : parse S c bs = .ok m) : ∃ bs', dumpVal S m = .ok bs' :=
  dumpVal_total S hS m (parse_msgEnc S hS c bs m hb h)

end Bp

#print axioms Bp.parse_msgTyped
#print axioms Bp.parse_msgEnc
#print axioms Bp.parse_reencodes
#print axioms Bp.dumpVal_total
#print axioms Bp.msgTyped_weaken
