import BpModel.All
import BpProofs.Load
import BpProofs.Varint
/-
  C17, last sentence: whatever `parse` returns is a message in which every field holds a
  value of its declared Python type (`msgTypedB false`), and — for an input made of bytes —
  a value of the encoder's domain (`msgTypedB true`), on which `dumpVal` succeeds.

  Definitions: BpModel/Typed.lean.  The proof is an induction on the fuel of `loadInto`
  with the invariant `StTyped` of the fold state.
-/
namespace Bp
open Gen

/-! ### slot lists -/

theorem slotTypedB_ph (s : Bool) (S : Schema) (f : FieldD) : slotTypedB s S f .ph = true := by
  rw [slotTypedB]

theorem slotsTyped_length (s : Bool) (S : Schema) :
    ∀ (fs : List FieldD) (sl : List Val), slotsTypedB s S fs sl = true → sl.length = fs.length
  | [], [], _ => rfl
  | f :: fs, v :: vs, h => by
    rw [slotsTypedB] at h
    simp only [Bool.and_eq_true] at h
    simp [slotsTyped_length s S fs vs h.2]
  | [], _ :: _, h => by simp [slotsTypedB] at h
  | _ :: _, [], h => by simp [slotsTypedB] at h

theorem slotsTyped_getD (s : Bool) (S : Schema) :
    ∀ (fs : List FieldD) (sl : List Val) (i : Nat) (f : FieldD), slotsTypedB s S fs sl = true →
      fs[i]? = some f → slotTypedB s S f (sl.getD i .ph) = true
  | [], _, _, _, _, hf => by simp at hf
  | _ :: _, [], _, _, h, _ => by simp [slotsTypedB] at h
  | f0 :: fs, v :: vs, i, f, h, hf => by
    rw [slotsTypedB] at h
    simp only [Bool.and_eq_true] at h
    cases i with
    | zero => simp at hf; subst hf; simpa using h.1
    | succ i =>
      simp at hf
      simpa using slotsTyped_getD s S fs vs i f h.2 hf

theorem slotsTyped_set (s : Bool) (S : Schema) :
    ∀ (fs : List FieldD) (sl : List Val) (i : Nat) (f : FieldD) (v : Val), slotsTypedB s S fs sl = true →
      fs[i]? = some f → slotTypedB s S f v = true → slotsTypedB s S fs (setAt sl i v) = true
  | [], _, _, _, _, _, hf, _ => by simp at hf
  | _ :: _, [], _, _, _, h, _, _ => by simp [slotsTypedB] at h
  | f0 :: fs, v0 :: vs, i, f, v, h, hf, hv => by
    rw [slotsTypedB] at h
    simp only [Bool.and_eq_true] at h
    cases i with
    | zero =>
      simp at hf; subst hf
      simp only [setAt, List.set_cons_zero]
      rw [slotsTypedB]; simp [hv, h.2]
    | succ i =>
      simp at hf
      simp only [setAt, List.set_cons_succ]
      rw [slotsTypedB]
      have := slotsTyped_set s S fs vs i f v h.2 hf hv
      simp only [setAt] at this
      simp [h.1, this]

theorem slotsTyped_reset (s : Bool) (S : Schema) (g idx : Nat) :
    ∀ (fs : List FieldD) (sl : List Val) (j : Nat), slotsTypedB s S fs sl = true →
      slotsTypedB s S fs (resetGroup g idx fs sl j) = true
  | [], [], _, _ => by simp [resetGroup, slotsTypedB]
  | [], _ :: _, _, h => by simp [slotsTypedB] at h
  | _ :: _, [], _, h => by simp [slotsTypedB] at h
  | f0 :: fs, v0 :: vs, j, h => by
    rw [slotsTypedB] at h
    simp only [Bool.and_eq_true] at h
    rw [resetGroup, slotsTypedB]
    have := slotsTyped_reset s S g idx fs vs (j + 1) h.2
    split
    · simp [slotTypedB_ph, this]
    · simp [h.1, this]

/-! ### the invariant of the fold state -/

/-- every slot of the partially decoded instance is typed; one selection cell per group -/
def StTyped (s : Bool) (S : Schema) (d : MsgD) (st : MState) : Prop :=
  st.cur.length = d.nGroups ∧ slotsTypedB s S d.fields st.slots = true

theorem slotTypedB_markEmpty (s : Bool) (S : Schema) (f : FieldD) (v : Val) :
    slotTypedB s S f (markEmpty S v) = slotTypedB s S f v := by
  cases v <;> try rfl
  rename_i c sl ow unk cur
  simp only [markEmpty]
  by_cases he : (fieldsOf S c).isEmpty = true
  · simp only [he, if_true]; rw [slotTypedB, slotTypedB]
  · simp only [he]; rfl

theorem setAttr_typed (s : Bool) (S : Schema) (d : MsgD) (st : MState) (idx : Nat) (f : FieldD) (v : Val)
    (hf : d.fields[idx]? = some f) (h : StTyped s S d st) (hv : slotTypedB s S f v = true) :
    StTyped s S d (setAttr S d.fields st idx v) := by
  obtain ⟨hc, hs⟩ := h
  have hv' : slotTypedB s S f (markEmpty S v) = true := by rw [slotTypedB_markEmpty]; exact hv
  unfold setAttr
  simp only [hf]
  cases f.group with
  | none => exact ⟨hc, slotsTyped_set s S _ _ idx f _ hs hf hv'⟩
  | some g =>
    refine ⟨by simp [hc], ?_⟩
    exact slotsTyped_set s S _ _ idx f _ (slotsTyped_reset s S g idx _ _ 0 hs) hf hv'

/-! ### defaults -/

theorem freshSlots_typed (s : Bool) (S : Schema) :
    ∀ fs : List FieldD, slotsTypedB s S fs (fs.map fun f => if f.optional then Val.none else Val.ph) = true
  | [] => by simp [slotsTypedB]
  | f :: fs => by
    simp only [List.map_cons]
    rw [slotsTypedB, freshSlots_typed s S fs]
    cases ho : f.optional
    · simp [slotTypedB_ph]
    · simp only [if_true]; rw [slotTypedB]; simp [noneOkB, ho]

theorem freshState_typed (s : Bool) (S : Schema) (d : MsgD) : StTyped s S d (freshState d) :=
  ⟨by simp [freshState], freshSlots_typed s S d.fields⟩

/-! ### well-formed schemas -/

/-- every field of the class descriptor is well-formed w.r.t. the classes of `S` -/
def WfD (S : Schema) (d : MsgD) : Prop := ∀ f ∈ d.fields, wfFieldB S.length f = true

/-- the schema-only side condition (decidable: `wfSchemaTB`) -/
def WfSchemaT (S : Schema) : Prop := wfSchemaTB S = true

instance (S : Schema) : Decidable (WfSchemaT S) := by unfold WfSchemaT; infer_instance

theorem wfSchema_class (S : Schema) (hS : WfSchemaT S) (c : Nat) (d : MsgD) (h : S[c]? = some d) : WfD S d := by
  unfold WfSchemaT wfSchemaTB at hS
  rw [List.all_eq_true] at hS
  have := hS d (List.mem_of_getElem? h)
  unfold wfMsgDB at this
  rw [List.all_eq_true] at this
  exact this

theorem wfField_rep {n : Nat} {f : FieldD} (h : wfFieldB n f = true) (hr : f.repeated = true) :
    f.optional = false := by
  unfold wfFieldB at h
  simp only [Bool.and_eq_true] at h
  simpa [hr] using h.1.1

theorem wfField_user {n : Nat} {f : FieldD} (h : wfFieldB n f = true) (c : Nat)
    (ht : f.ty = .message) (hk : f.kind = .user c) (hwr : f.wraps = Option.none) : c < n := by
  unfold wfFieldB at h
  simp only [Bool.and_eq_true] at h
  simpa [ht, hk, hwr] using h.1.2

theorem wfField_wrap {n : Nat} {f : FieldD} (h : wfFieldB n f = true) (c : Nat) (w : PType)
    (ht : f.ty = .message) (hk : f.kind = .user c) (hwr : f.wraps = some w) : isScalarTy w = true := by
  unfold wfFieldB at h
  simp only [Bool.and_eq_true] at h
  simpa [ht, hk, hwr] using h.1.2

theorem wfField_map {n : Nat} {f : FieldD} (h : wfFieldB n f = true) (ht : f.ty = .map) :
    isScalarTy f.mapK = true ∧ f.mapV ≠ .map ∧ (f.mapV = .message → ∀ c, f.mapVKind = .user c → c < n) := by
  unfold wfFieldB at h
  simp only [Bool.and_eq_true] at h
  have h2 := h.2
  simp only [ht, beq_self_eq_true, Bool.not_true, Bool.false_or, Bool.and_eq_true] at h2
  refine ⟨h2.1.1, by simpa using h2.1.2, ?_⟩
  intro hm c hc
  simpa [hm, hc] using h2.2

theorem fresh_eq (S : Schema) (c : Nat) (d : MsgD) (h : S[c]? = some d) :
    fresh S c = .msg c (freshState d).slots false [] (freshState d).cur := by
  simp [fresh, fieldsOf, groupsOf, h, freshState]

theorem defaultOf_typed (s : Bool) (S : Schema) (f : FieldD) (hw : wfFieldB S.length f = true) :
    slotTypedB s S f (defaultOf S f) = true := by
  unfold defaultOf FieldD.defKind
  cases hr : f.repeated
  · simp only [Bool.false_eq_true, if_false]
    by_cases hm : f.ty = .map
    · simp only [hm, beq_self_eq_true, if_true, defaultOfKind]
      rw [slotTypedB]; simp [hm, hr, itemsTypedB]
    · have hm' : (f.ty == PType.map) = false := by simpa using hm
      simp only [hm', Bool.false_eq_true, if_false]
      cases hn : (f.optional || f.wraps.isSome)
      · simp only [Bool.false_eq_true, if_false]
        simp only [Bool.or_eq_false_iff] at hn
        have hwn : f.wraps = Option.none := by simpa using hn.2
        by_cases hmsg : f.ty = .message
        · simp only [hmsg, beq_self_eq_true, if_true]
          cases hk : f.kind with
          | user c =>
            have hc := wfField_user hw c hmsg hk hwn
            obtain ⟨d, hd⟩ : ∃ d, S[c]? = some d := ⟨S[c], by simp [hc]⟩
            simp only [msgKindDef, defaultOfKind]
            rw [fresh_eq S c d hd, slotTypedB]
            simp [singularB, hr, hmsg, msgFieldB, hk, hwn, hd, (freshState_typed s S d).1,
              (freshState_typed s S d).2]
          | timestamp =>
            simp [msgKindDef, defaultOfKind, slotTypedB, singularB, hr, hmsg, leafTypedB, hk, tsRangeB,
              tsMinUs, tsMaxUs]
          | duration =>
            simp [msgKindDef, defaultOfKind, slotTypedB, singularB, hr, hmsg, leafTypedB, hk, durRangeB,
              durMinUs, durMaxUs]
        · have hmsg' : (f.ty == PType.message) = false := by simpa using hmsg
          simp only [hmsg', Bool.false_eq_true, if_false]
          cases ht : f.ty <;>
            simp_all [scalarDef, defaultOfKind, slotTypedB, singularB, leafTypedB, elemTy, scalarTypedB,
              isIntTy, intEncB, utf8Valid, utf8ValidFuel]
      · simp only [if_true, defaultOfKind]
        rw [slotTypedB]
        simp [noneOkB, FieldD.defKind, hr, hm', hn]
  · simp only [if_true, defaultOfKind]
    rw [slotTypedB]; simp [hr, itemsTypedB]

theorem materialize_typed (s : Bool) (S : Schema) (f : FieldD) (hw : wfFieldB S.length f = true) (v : Val)
    (h : slotTypedB s S f v = true) : slotTypedB s S f (materialize S f v) = true := by
  cases v <;> first | exact h | exact defaultOf_typed s S f hw

/-! ### leaves: what `_postprocess_single` returns -/

theorem loadVarint_lt (bs : Bytes) (v k : Nat) (h : loadVarint bs = .ok (v, k)) : v < 18446744073709551616 := by
  unfold loadVarint at h
  split at h
  · simp at h; rw [← h.1]; exact Nat.mod_lt _ (by decide)
  · simp at h

theorem signRecover32_ge (n : Nat) : (-9223372036854775808 : Int) ≤ signRecover 32 n := by
  unfold signRecover
  simp only
  have : n % 2 ^ 32 < 2 ^ 32 := Nat.mod_lt _ (by decide)
  split <;> (push_cast; omega)

theorem signRecover64_ge (n : Nat) : (-9223372036854775808 : Int) ≤ signRecover 64 n := by
  unfold signRecover
  simp only
  have : n % 2 ^ 64 < 2 ^ 64 := Nat.mod_lt _ (by decide)
  split
  · push_cast; omega
  · rename_i h; push_cast; simp only [Nat.reduceSub] at h; omega

theorem postVarint_typed (s : Bool) (t : PType) (n : Nat) (ht : wireVarintTypes.contains t = true) :
    scalarTypedB s t (postVarint t n) = true := by
  have h32 := signRecover32_ge n
  have h64 := signRecover64_ge n
  cases t <;> simp [wireVarintTypes] at ht <;> cases s <;>
    simp [postVarint, scalarTypedB, isIntTy, intEncB, h32, h64]

theorem quiet32_lt (b : Nat) (h : b < 4294967296) : quiet32 b < 4294967296 := by
  unfold quiet32
  split
  · rename_i hc
    simp only [Bool.and_eq_true, beq_iff_eq] at hc
    have := hc.2
    omega
  · exact h

theorem toSigned_range32 (u : Nat) (h : u < 4294967296) :
    (-2147483648 : Int) ≤ toSigned 32 u ∧ toSigned 32 u < 2147483648 := by
  unfold toSigned
  simp only [Nat.reduceSub, Nat.reducePow]
  split <;> (push_cast; omega)

theorem toSigned_range64 (u : Nat) (h : u < 18446744073709551616) :
    (-9223372036854775808 : Int) ≤ toSigned 64 u ∧ toSigned 64 u < 9223372036854775808 := by
  unfold toSigned
  simp only [Nat.reduceSub, Nat.reducePow]
  split <;> (push_cast; omega)

theorem postFixed_ok (t : PType) (p : Bytes) (v : Val) (h : postFixed t p = .ok v) :
    ∃ w sg fl, fmtOf t = some (w, sg, fl) ∧ p.length = w ∧
      v = (if fl then (if w == 4 then Val.f32 (quiet32 (unpackLE p)) else Val.f64 (unpackLE p))
           else if sg then Val.int (toSigned (8 * w) (unpackLE p)) else Val.int (unpackLE p)) := by
  unfold postFixed at h
  split at h
  · simp at h
  · rename_i w sg fl hfmt
    refine ⟨w, sg, fl, hfmt, ?_⟩
    by_cases hl : p.length = w
    · refine ⟨hl, ?_⟩
      have hl' : (p.length != w) = false := by simp [hl]
      simp only [hl', Bool.false_eq_true, if_false] at h
      cases fl <;> cases sg <;> simp at h ⊢
      · exact h.symm
      · exact h.symm
      · split at h <;> rename_i hw4 <;> simp [hw4] <;> (injection h with h; exact h.symm)
      · split at h <;> rename_i hw4 <;> simp [hw4] <;> (injection h with h; exact h.symm)
    · have hl' : (p.length != w) = true := by simp [hl]
      simp [hl'] at h

theorem postFixed_typed (s : Bool) (t : PType) (p : Bytes) (v : Val) (hw : s = true → WfBytes p)
    (h : postFixed t p = .ok v) : scalarTypedB s t v = true := by
  obtain ⟨w, sg, fl, hfmt, hl, hv⟩ := postFixed_ok t p v h
  cases s with
  | false =>
    cases t <;> simp [fmtOf, packFmt] at hfmt <;> (obtain ⟨h1, h2, h3⟩ := hfmt; subst h1 h2 h3; subst hv) <;>
      simp [scalarTypedB, isIntTy]
  | true =>
    have hlt := unpackLE_lt p (hw rfl)
    cases t <;> simp [fmtOf, packFmt] at hfmt <;>
      (obtain ⟨h1, h2, h3⟩ := hfmt; subst h1 h2 h3; subst hv; rw [hl] at hlt) <;>
      simp only [Nat.reducePow] at hlt <;> simp [scalarTypedB, isIntTy, intEncB]
    · exact quiet32_lt _ hlt
    · exact hlt
    · omega
    · exact toSigned_range32 _ hlt
    · omega
    · exact toSigned_range64 _ hlt

theorem wf_take (p : Bytes) (n : Nat) (h : WfBytes p) : WfBytes (p.take n) :=
  fun b hb => h b (List.mem_of_mem_take hb)

theorem wf_drop (p : Bytes) (n : Nat) (h : WfBytes p) : WfBytes (p.drop n) :=
  fun b hb => h b (List.mem_of_mem_drop hb)

theorem packed_varint (t : PType) (hp : isPacked t = true)
    (h1 : (t == .float || t == .fixed32 || t == .sfixed32) = false)
    (h2 : (t == .double || t == .fixed64 || t == .sfixed64) = false) :
    wireVarintTypes.contains t = true := by
  cases t <;> simp [isPacked, packedTypes, wireVarintTypes] at hp h1 h2 ⊢

theorem decodePackedFuel_typed (s : Bool) (t : PType) (hp : isPacked t = true) :
    ∀ (fuel : Nat) (p : Bytes) (vs : List Val), (s = true → WfBytes p) →
      decodePackedFuel t fuel p = .ok vs → ∀ v ∈ vs, scalarTypedB s t v = true := by
  intro fuel
  induction fuel with
  | zero => intro p vs _ h; simp [decodePackedFuel] at h
  | succ fuel ih =>
    intro p vs hw h
    unfold decodePackedFuel at h
    cases p with
    | nil => simp at h; subst h; intro v hv; simp at hv
    | cons b p =>
      simp only at h
      split at h
      · cases h1 : postFixed t (List.take 4 (b :: p)) with
        | error e => rw [h1] at h; simp at h
        | ok v0 =>
          rw [h1] at h; simp only [bind_ok] at h
          cases h2 : decodePackedFuel t fuel (List.drop 4 (b :: p)) with
          | error e => rw [h2] at h; simp at h
          | ok vs0 =>
            rw [h2] at h; simp only [bind_ok] at h
            injection h with h; subst h
            intro v hv
            simp only [List.mem_cons] at hv
            rcases hv with hv | hv
            · subst hv; exact postFixed_typed s t _ _ (fun hs => wf_take _ _ (hw hs)) h1
            · exact ih _ _ (fun hs => wf_drop _ _ (hw hs)) h2 v hv
      · split at h
        · cases h1 : postFixed t (List.take 8 (b :: p)) with
          | error e => rw [h1] at h; simp at h
          | ok v0 =>
            rw [h1] at h; simp only [bind_ok] at h
            cases h2 : decodePackedFuel t fuel (List.drop 8 (b :: p)) with
            | error e => rw [h2] at h; simp at h
            | ok vs0 =>
              rw [h2] at h; simp only [bind_ok] at h
              injection h with h; subst h
              intro v hv
              simp only [List.mem_cons] at hv
              rcases hv with hv | hv
              · subst hv; exact postFixed_typed s t _ _ (fun hs => wf_take _ _ (hw hs)) h1
              · exact ih _ _ (fun hs => wf_drop _ _ (hw hs)) h2 v hv
        · rename_i hn1 hn2
          have hv := packed_varint t hp (by simpa using hn1) (by simpa using hn2)
          split at h
          · simp at h
          · rename_i n k hlv
            cases h2 : decodePackedFuel t fuel (List.drop k (b :: p)) with
            | error e => rw [h2] at h; simp at h
            | ok vs0 =>
              rw [h2] at h; simp only [bind_ok] at h
              injection h with h; subst h
              intro v hv'
              simp only [List.mem_cons] at hv'
              rcases hv' with hv' | hv'
              · subst hv'; exact postVarint_typed s t n hv
              · exact ih _ _ (fun hs => wf_drop _ _ (hw hs)) h2 v hv'

/-! ### lists of elements -/

theorem items_cons (s : Bool) (S : Schema) (f : FieldD) (x : Val) (xs : List Val) :
    itemsTypedB s S f (x :: xs) = (itemsTypedB s S f [x] && itemsTypedB s S f xs) := by
  cases x <;> simp [itemsTypedB]

theorem items_append (s : Bool) (S : Schema) (f : FieldD) (xs ys : List Val) :
    itemsTypedB s S f (xs ++ ys) = (itemsTypedB s S f xs && itemsTypedB s S f ys) := by
  induction xs with
  | nil => simp [itemsTypedB]
  | cons x xs ih => rw [List.cons_append, items_cons, ih, items_cons s S f x xs, Bool.and_assoc]

theorem item_leaf (s : Bool) (S : Schema) (f : FieldD) (x : Val) (h : leafTypedB s f x = true) :
    itemsTypedB s S f [x] = true := by
  cases x <;> simp [leafTypedB] at h <;> simp [itemsTypedB, leafTypedB, h]

theorem items_of_leaves (s : Bool) (S : Schema) (f : FieldD) (vs : List Val)
    (h : ∀ v ∈ vs, leafTypedB s f v = true) : itemsTypedB s S f vs = true := by
  induction vs with
  | nil => simp [itemsTypedB]
  | cons x xs ih =>
    rw [items_cons, item_leaf s S f x (h x (by simp)), ih (fun v hv => h v (by simp [hv]))]
    rfl

theorem leaf_of_scalar (s : Bool) (f : FieldD) (t : PType) (v : Val) (he : elemTy f = some t)
    (h : scalarTypedB s t v = true) : leafTypedB s f v = true := by
  cases v <;> simp [scalarTypedB] at h <;> simp [leafTypedB, he, scalarTypedB, h]

theorem elemTy_plain (f : FieldD) (h : f.ty ≠ .message) : elemTy f = some f.ty := by
  unfold elemTy
  simp [h]

/-- a singular typed slot that is set holds an element -/
theorem slot_item (s : Bool) (S : Schema) (f : FieldD) (v : Val) (h : slotTypedB s S f v = true)
    (hp : v ≠ .ph) (hn : v ≠ .none) (hs : singularB f = true) : itemsTypedB s S f [v] = true := by
  unfold singularB at hs
  simp only [Bool.and_eq_true, Bool.not_eq_true', bne_iff_ne, ne_eq] at hs
  cases v with
  | ph => exact absurd rfl hp
  | none => exact absurd rfl hn
  | list xs => rw [slotTypedB] at h; simp [hs.1] at h
  | dict ks vs => rw [slotTypedB] at h; simp [hs.2] at h
  | msg c sl ow unk cur =>
    rw [slotTypedB] at h
    simp only [Bool.and_eq_true] at h
    rw [itemsTypedB, itemsTypedB]
    simp [h.1.2, h.2]
  | _ =>
    simp only [slotTypedB, Bool.and_eq_true] at h
    exact item_leaf s S f _ h.2

/-- an element is a typed value of a singular slot -/
theorem item_slot (s : Bool) (S : Schema) (f : FieldD) (v : Val) (h : itemsTypedB s S f [v] = true)
    (hs : singularB f = true) : slotTypedB s S f v = true := by
  cases v with
  | ph => exact slotTypedB_ph s S f
  | msg c sl ow unk cur =>
    rw [itemsTypedB, itemsTypedB, Bool.and_true] at h
    simp only [Bool.and_eq_true] at h
    rw [slotTypedB]
    simp [hs, h.1, h.2]
  | _ => simp [itemsTypedB, leafTypedB] at h <;> simp [slotTypedB, hs, leafTypedB, h]

theorem dictInsert_typed (s : Bool) (S : Schema) (fk fv : FieldD) (k v : Val)
    (hk : itemsTypedB s S fk [k] = true) (hv : itemsTypedB s S fv [v] = true) :
    ∀ (ks vs : List Val), ks.length = vs.length → itemsTypedB s S fk ks = true → itemsTypedB s S fv vs = true →
      (dictInsert ks vs k v).1.length = (dictInsert ks vs k v).2.length
      ∧ itemsTypedB s S fk (dictInsert ks vs k v).1 = true ∧ itemsTypedB s S fv (dictInsert ks vs k v).2 = true
  | [], [], _, _, _ => by simp [dictInsert, hk, hv]
  | [], _ :: _, hl, _, _ => by simp at hl
  | _ :: _, [], hl, _, _ => by simp at hl
  | k' :: ks, v' :: vs, hl, h1, h2 => by
    rw [items_cons] at h1 h2
    simp only [Bool.and_eq_true] at h1 h2
    simp only [List.length_cons, Nat.add_right_cancel_iff] at hl
    obtain ⟨i1, i2, i3⟩ := dictInsert_typed s S fk fv k v hk hv ks vs hl h1.2 h2.2
    rw [dictInsert]
    split
    · refine ⟨by simp [hl], ?_, ?_⟩
      · rw [items_cons]; simp [h1.1, h1.2]
      · rw [items_cons]; simp [hv, h2.2]
    · refine ⟨by simp [i1], ?_, ?_⟩
      · simp only; rw [items_cons]; simp [h1.1, i2]
      · simp only; rw [items_cons]; simp [h2.1, i3]

/-! ### the value a known, fitting record decodes to -/

theorem wireFits_cases (f : FieldD) (wt : Nat) (h : wireFits f wt = true) :
    (wt = 0 ∧ wireVarintTypes.contains f.ty = true)
    ∨ ((wt = 5 ∨ wt = 1) ∧ isFixed f.ty = true)
    ∨ (wt = 2 ∧ (f.ty = .string ∨ f.ty = .bytes ∨ f.ty = .message ∨ f.ty = .map))
    ∨ (wt = 2 ∧ isPacked f.ty = true ∧ f.repeated = true) := by
  unfold wireFits at h
  cases ht : f.ty <;> rw [ht] at h <;>
    simp [wireTypeByProtoType, wireLenDelim, isPacked, packedTypes] at h <;>
    simp [wireVarintTypes, isFixed, fixedTypes, isPacked, packedTypes] <;> first | exact h | (rcases h with h | h <;> simp [h])

theorem item_scalar (s : Bool) (S : Schema) (g : FieldD) (v : Val) (hg : g.ty ≠ .message)
    (h : itemsTypedB s S g [v] = true) : scalarTypedB s g.ty v = true := by
  cases v <;> simp [itemsTypedB, leafTypedB, elemTy_plain g hg, msgFieldB, hg] at h <;> exact h

/-- what the nested loader is assumed to do (induction hypothesis on the fuel) -/
def LoaderOk (s : Bool) (S : Schema) (rec : Loader) : Prop :=
  ∀ (d : MsgD) (st : MState) (bs : Bytes) (st' : MState), WfD S d → (s = true → WfBytes bs) →
    StTyped s S d st → rec d st bs = .ok st' → StTyped s S d st'

/-- the decoded value fits what `storeValue` does with it: a chunk of list items, one map
    entry, or one element -/
def decodedOkB (s : Bool) (S : Schema) (f : FieldD) : Val → Bool
  | .list vs => f.repeated && itemsTypedB s S f vs
  | .dict ks vs => f.ty == .map && itemsTypedB s S (keyFieldOf f) ks && itemsTypedB s S (valFieldOf f) vs
  | v => itemsTypedB s S f [v]

theorem decoded_of_leaf (s : Bool) (S : Schema) (f : FieldD) (v : Val) (h : leafTypedB s f v = true) :
    decodedOkB s S f v = true := by
  cases v <;> simp [leafTypedB] at h <;> simp [decodedOkB, itemsTypedB, leafTypedB, h]

theorem wfD_secNanos (S : Schema) : WfD S secNanosD := by
  intro f hf
  simp [secNanosD] at hf
  rcases hf with rfl | rfl <;> simp [wfFieldB]

theorem wfD_wrapper (S : Schema) (w : PType) (hw : isScalarTy w = true) : WfD S (wrapperD w) := by
  intro f hf
  simp [wrapperD] at hf
  subst hf
  unfold isScalarTy at hw
  simp only [Bool.and_eq_true, bne_iff_ne, ne_eq] at hw
  simp [wfFieldB, hw.1, hw.2]

theorem entryD_fields (f : FieldD) : (entryD f).fields = [keyFieldOf f, valFieldOf f] := rfl

theorem wfD_entry (S : Schema) (f : FieldD) (hw : wfFieldB S.length f = true) (ht : f.ty = .map) :
    WfD S (entryD f) := by
  obtain ⟨h1, h2, h3⟩ := wfField_map hw ht
  unfold isScalarTy at h1
  simp only [Bool.and_eq_true, bne_iff_ne, ne_eq] at h1
  intro g hg
  rw [entryD_fields] at hg
  simp at hg
  rcases hg with rfl | rfl
  · simp [wfFieldB, keyFieldOf, h1.1, h1.2]
  · by_cases hm : f.mapV = .message
    · cases hk : f.mapVKind with
      | user c => simp [wfFieldB, valFieldOf, hm, hk, h3 hm c hk]
      | timestamp => simp [wfFieldB, valFieldOf, hm, hk]
      | duration => simp [wfFieldB, valFieldOf, hm, hk]
    · simp [wfFieldB, valFieldOf, hm, h2]

theorem defaultOf_ne (S : Schema) (f : FieldD) (hn : noneOkB f = false) :
    defaultOf S f ≠ .ph ∧ defaultOf S f ≠ .none := by
  unfold noneOkB at hn
  simp only [Bool.or_eq_false_iff] at hn
  have hk := hn.2
  unfold defaultOf
  cases hd : f.defKind <;> simp [defaultOfKind, fresh] <;> simp [hd] at hk

/-- the attribute read of a singular field whose default is not None yields an element -/
theorem materialized_item (s : Bool) (S : Schema) (f : FieldD) (hw : wfFieldB S.length f = true)
    (hs : singularB f = true) (hn : noneOkB f = false) (v : Val) (h : slotTypedB s S f v = true) :
    itemsTypedB s S f [materialize S f v] = true := by
  have ht := materialize_typed s S f hw v h
  have hd := defaultOf_ne S f hn
  apply slot_item s S f _ ht _ _ hs
  · cases v <;> simp [materialize] <;> exact hd.1
  · cases v <;> simp [materialize]
    · exact hd.2
    · rw [slotTypedB] at h; rw [h] at hn; simp at hn

theorem postLen_typed (s : Bool) (S : Schema) (rec : Loader) (hrec : LoaderOk s S rec) (hS : WfSchemaT S)
    (f : FieldD) (p : Bytes) (value : Val) (hw : wfFieldB S.length f = true)
    (ht : f.ty = .string ∨ f.ty = .bytes ∨ f.ty = .message) (hb : s = true → WfBytes p)
    (h : postLen S rec f p = .ok value) : itemsTypedB s S f [value] = true := by
  unfold postLen at h
  split at h
  · rename_i hstr
    have hstr' : f.ty = .string := by simpa using hstr
    split at h
    · rename_i hu
      injection h with h; subst h
      apply item_leaf
      apply leaf_of_scalar s f .string _ (by rw [← hstr']; exact elemTy_plain f (by rw [hstr']; simp))
      simp [scalarTypedB, hu]
    · simp at h
  · split at h
    · rename_i hmsg
      have hmsg' : f.ty = .message := by simpa using hmsg
      split at h
      · -- Timestamp
        rename_i hk
        cases hr : rec secNanosD (freshState secNanosD) p with
        | error e => rw [hr] at h; simp at h
        | ok st =>
          rw [hr] at h; simp only [bind_ok] at h
          split at h
          · split at h
            · rename_i hrange
              injection h with h; subst h
              apply item_leaf
              cases s <;> simp [leafTypedB, hmsg', hk, tsRangeB, hrange.1, hrange.2]
            · simp at h
          · simp at h
      · -- Duration
        rename_i hk
        cases hr : rec secNanosD (freshState secNanosD) p with
        | error e => rw [hr] at h; simp at h
        | ok st =>
          rw [hr] at h; simp only [bind_ok] at h
          split at h
          · split at h
            · rename_i hrange
              injection h with h; subst h
              apply item_leaf
              cases s <;> simp [leafTypedB, hmsg', hk, durRangeB, hrange.1, hrange.2]
            · simp at h
          · simp at h
      · -- wrapper
        rename_i c w hk hwr
        have hsc := wfField_wrap hw c w hmsg' hk hwr
        cases hr : rec (wrapperD w) (freshState (wrapperD w)) p with
        | error e => rw [hr] at h; simp at h
        | ok st =>
          rw [hr] at h; simp only [bind_ok] at h
          injection h with h; subst h
          have hst := hrec _ _ _ _ (wfD_wrapper S w hsc) hb (freshState_typed s S _) hr
          have hslot := slotsTyped_getD s S _ _ 0 _ hst.2 (show (wrapperD w).fields[0]? = some _ from rfl)
          have hwf := wfD_wrapper S w hsc _ (show (wrapperD w).fields[0]! ∈ (wrapperD w).fields by simp [wrapperD])
          unfold isScalarTy at hsc
          simp only [Bool.and_eq_true, bne_iff_ne, ne_eq] at hsc
          have hitem := materialized_item s S ((wrapperD w).fields[0]!) hwf
            (by simp [wrapperD, singularB, hsc.2])
            (by simp [wrapperD, noneOkB, FieldD.defKind, hsc.1, hsc.2]; cases w <;> simp [scalarDef] at hsc ⊢)
            _ hslot
          -- transport from the wrapper's `value` field to the wrapper field itself
          have he : elemTy f = some w := by simp [elemTy, hmsg', hk, hwr]
          have hsv := item_scalar s S ((wrapperD w).fields[0]!) _ (by simp [wrapperD, hsc.1]) hitem
          exact item_leaf s S f _ (leaf_of_scalar s f w _ he hsv)
      · -- nested message
        rename_i c hk hwr
        split at h
        · simp at h
        · rename_i d hd
          cases hr : rec d (freshState d) p with
          | error e => rw [hr] at h; simp at h
          | ok st =>
            rw [hr] at h; simp only [bind_ok] at h
            injection h with h; subst h
            have hst := hrec _ _ _ _ (wfSchema_class S hS c d hd) hb (freshState_typed s S _) hr
            rw [itemsTypedB, itemsTypedB]
            simp [msgFieldB, hmsg', hk, hwr, hd, hst.1, hst.2]
    · rename_i hns hnm
      injection h with h; subst h
      have hby : f.ty = .bytes := by
        rcases ht with ht | ht | ht
        · simp [ht] at hns
        · exact ht
        · simp [ht] at hnm
      apply item_leaf
      apply leaf_of_scalar s f .bytes _ (by rw [← hby]; exact elemTy_plain f (by rw [hby]; simp))
      simp [scalarTypedB]

end Bp
