import BpModel.Typing
/-
  Helper lemmas for C18: the annotation parser on the text the typing compilers produce.
  (Property statements live in Props/C18.lean.)
-/
namespace Bp.Typing

/-- what may follow an atom: not a name character (the name would go on) and not `[` -/
def AtomEnd (r : Str) : Prop := ∀ ch r', r = ch :: r' → isNameChar ch = false ∧ ch ≠ '['

/-- what may follow a whole annotation: an atom end that does not continue a union -/
def ChainEnd (r : Str) : Prop := AtomEnd r ∧ stripPrefix " | ".toList r = none

theorem isNameChar_dq : isNameChar dq = false := by decide

theorem ne_dq_of_name {ch : Char} (h : isNameChar ch = true) : (ch == dq) = false := by
  cases hc : ch == dq
  · rfl
  · have : ch = dq := by simpa using hc
    subst this
    rw [isNameChar_dq] at h
    cases h

theorem spanName_append (n r : Str) (hn : n.all isNameChar = true)
    (hr : ∀ ch r', r = ch :: r' → isNameChar ch = false) : spanName (n ++ r) = (n, r) := by
  induction n with
  | nil =>
    cases r with
    | nil => rfl
    | cons ch r' => simp [spanName, hr ch r' rfl]
  | cons a n ih =>
    simp only [List.all_cons, Bool.and_eq_true] at hn
    simp [spanName, hn.1, ih hn.2]

theorem stripPrefix_append (p r : Str) : stripPrefix p (p ++ r) = some r := by
  induction p with
  | nil => cases r <;> rfl
  | cons a p ih => simp [stripPrefix, ih]

theorem atomEnd_nil : AtomEnd [] := by intro ch r' h; cases h

theorem atomEnd_cons {ch : Char} {r : Str} (h1 : isNameChar ch = false) (h2 : ch ≠ '[') : AtomEnd (ch :: r) := by
  intro c r' h
  cases h
  exact ⟨h1, h2⟩

/-- a bare name is an atom -/
theorem pAtom_name (f : Nat) (q : Bool) (n r : Str) (hv : validName n = true) (hr : AtomEnd r) :
    pAtom (f + 1) q (n ++ r) = some (.nm n, r) := by
  cases n with
  | nil => simp [validName] at hv
  | cons a n =>
    simp only [validName, List.all_cons, Bool.and_eq_true] at hv
    have ha : isNameChar a = true := hv.2.1
    have hs : spanName (a :: n ++ r) = (a :: n, r) := by
      apply spanName_append
      · simp [ha, hv.2.2]
      · intro ch r' h; exact (hr ch r' h).1
    simp only [List.cons_append] at hs ⊢
    unfold pAtom
    simp only [ne_dq_of_name ha, hs]
    cases r with
    | nil => simp
    | cons c r' =>
      have := (hr c r' rfl).2
      simp [this]

theorem pAnn_end {f : Nat} {q : Bool} {s r : Str} {a : Shape} (h : pAtom f q s = some (a, r))
    (hr : stripPrefix " | ".toList r = none) : pAnn (f + 1) q s = some (a, r) := by
  unfold pAnn
  simp only [h, hr]

theorem pAnn_or {f : Nat} {q : Bool} {s t r' : Str} {a b : Shape}
    (h : pAtom f q s = some (a, " | ".toList ++ t)) (ht : pAnn f q t = some (b, r')) :
    pAnn (f + 1) q s = some (mkOr a b, r') := by
  unfold pAnn
  simp only [h, stripPrefix_append, ht]

/-- `h[X]` -/
theorem pAtom_app1 (f : Nat) (q : Bool) (h X r : Str) (a : Shape) (hv : validName h = true)
    (hX : pAnn f q (X ++ ']' :: r) = some (a, ']' :: r)) :
    pAtom (f + 1) q (h ++ '[' :: (X ++ ']' :: r)) = some (mkApp1 h a, r) := by
  cases h with
  | nil => simp [validName] at hv
  | cons c h =>
    simp only [validName, List.all_cons, Bool.and_eq_true] at hv
    have hc : isNameChar c = true := hv.2.1
    have hs : spanName (c :: h ++ '[' :: (X ++ ']' :: r)) = (c :: h, '[' :: (X ++ ']' :: r)) := by
      apply spanName_append
      · simp [hc, hv.2.2]
      · intro ch r' e; cases e; decide
    simp only [List.cons_append] at hs ⊢
    unfold pAtom
    simp only [ne_dq_of_name hc, hs, hX]
    simp

/-- `h[X, Y]` -/
theorem pAtom_app2 (f : Nat) (q : Bool) (h X Y r : Str) (a b : Shape) (hv : validName h = true)
    (hX : pAnn f q (X ++ ',' :: ' ' :: (Y ++ ']' :: r)) = some (a, ',' :: ' ' :: (Y ++ ']' :: r)))
    (hY : pAnn f q (Y ++ ']' :: r) = some (b, ']' :: r)) :
    pAtom (f + 1) q (h ++ '[' :: (X ++ ',' :: ' ' :: (Y ++ ']' :: r))) = some (mkApp2 h a b, r) := by
  cases h with
  | nil => simp [validName] at hv
  | cons c h =>
    simp only [validName, List.all_cons, Bool.and_eq_true] at hv
    have hc : isNameChar c = true := hv.2.1
    have hs : spanName (c :: h ++ '[' :: (X ++ ',' :: ' ' :: (Y ++ ']' :: r)))
        = (c :: h, '[' :: (X ++ ',' :: ' ' :: (Y ++ ']' :: r))) := by
      apply spanName_append
      · simp [hc, hv.2.2]
      · intro ch r' e; cases e; decide
    simp only [List.cons_append] at hs ⊢
    unfold pAtom
    simp only [ne_dq_of_name hc, hs, hX]
    have : stripPrefix [',', ' '] (',' :: ' ' :: (Y ++ ']' :: r)) = some (Y ++ ']' :: r) := by
      simp [stripPrefix]
    simp [this, hY]

/-- `"X"` outside a literal -/
theorem pAtom_lit (f : Nat) (X r : Str) (a : Shape)
    (hX : pAnn f true (X ++ dq :: r) = some (a, dq :: r)) :
    pAtom (f + 1) false (dq :: (X ++ dq :: r)) = some (a, r) := by
  unfold pAtom
  simp [hX]

/-! ### heads -/
theorem app1_Optional (a : Shape) : mkApp1 "Optional".toList a = mkOr a noneShape := by rfl
theorem app1_tOptional (a : Shape) : mkApp1 "typing.Optional".toList a = mkOr a noneShape := by rfl
theorem app1_List (a : Shape) : mkApp1 "List".toList a = .app1 hList a := by rfl
theorem app1_tList (a : Shape) : mkApp1 "typing.List".toList a = .app1 hList a := by rfl
theorem app1_list (a : Shape) : mkApp1 "list".toList a = .app1 hList a := by rfl
theorem app1_Iterable (a : Shape) : mkApp1 "Iterable".toList a = .app1 hIterable a := by rfl
theorem app1_tIterable (a : Shape) : mkApp1 "typing.Iterable".toList a = .app1 hIterable a := by rfl
theorem app1_AsyncIterable (a : Shape) : mkApp1 "AsyncIterable".toList a = .app1 hAsyncIterable a := by rfl
theorem app1_tAsyncIterable (a : Shape) : mkApp1 "typing.AsyncIterable".toList a = .app1 hAsyncIterable a := by rfl
theorem app1_AsyncIterator (a : Shape) : mkApp1 "AsyncIterator".toList a = .app1 hAsyncIterator a := by rfl
theorem app1_tAsyncIterator (a : Shape) : mkApp1 "typing.AsyncIterator".toList a = .app1 hAsyncIterator a := by rfl
theorem app2_Dict (a b : Shape) : mkApp2 "Dict".toList a b = .app2 hDict a b := by rfl
theorem app2_tDict (a b : Shape) : mkApp2 "typing.Dict".toList a b = .app2 hDict a b := by rfl
theorem app2_dict (a b : Shape) : mkApp2 "dict".toList a b = .app2 hDict a b := by rfl
theorem app2_Union (a b : Shape) : mkApp2 "Union".toList a b = mkOr a b := by rfl
theorem app2_tUnion (a b : Shape) : mkApp2 "typing.Union".toList a b = mkOr a b := by rfl

theorem sp_bracket (r : Str) : stripPrefix " | ".toList (']' :: r) = none := by simp [stripPrefix]
theorem sp_comma (r : Str) : stripPrefix " | ".toList (',' :: r) = none := by simp [stripPrefix]
theorem sp_dq (r : Str) : stripPrefix " | ".toList (dq :: r) = none := by simp [stripPrefix, dq]
theorem sp_nil : stripPrefix " | ".toList [] = none := by simp [stripPrefix]
theorem ae_bracket (r : Str) : AtomEnd (']' :: r) := atomEnd_cons (by decide) (by decide)
theorem ae_comma (r : Str) : AtomEnd (',' :: r) := atomEnd_cons (by decide) (by decide)
theorem ae_dq (r : Str) : AtomEnd (dq :: r) := atomEnd_cons (by decide) (by decide)
theorem ae_space (r : Str) : AtomEnd (' ' :: r) := atomEnd_cons (by decide) (by decide)

/-- a name as a whole annotation -/
theorem pAnn_name (f : Nat) (q : Bool) (n r : Str) (hv : validName n = true) (hr : ChainEnd r) :
    pAnn (f + 2) q (n ++ r) = some (.nm n, r) :=
  pAnn_end (pAtom_name f q n r hv hr.1) hr.2

/-! ### the `typing`-style compilers (typing.direct, typing.root) -/

def fuelT : Ty → Nat
  | .name _ => 1
  | .ref _ => 3
  | .optional t => fuelT t + 2
  | .list t => fuelT t + 2
  | .dict _ v => fuelT v + 2
  | .union a b => fuelT a + fuelT b + 2
  | .iterable _ => 3
  | .asyncIterable _ => 3
  | .asyncIterator _ => 3

theorem fuelT_pos (e : Ty) : 1 ≤ fuelT e := by
  cases e <;> simp [fuelT]

theorem parseT_direct (e : Ty) : e.valid = true → ∀ f r, fuelT e ≤ f → AtomEnd r →
    pAtom f false (render .direct e ++ r) = some (shapeOf e, r) := by
  induction e with
  | name n =>
    intro hv f r hf hr
    simp only [Ty.valid] at hv
    obtain ⟨g, rfl⟩ : ∃ g, f = g + 1 := ⟨f - 1, by simp [fuelT] at hf; omega⟩
    exact pAtom_name g false n r hv hr
  | ref n =>
    intro hv f r hf hr
    simp only [Ty.valid] at hv
    obtain ⟨g, rfl⟩ : ∃ g, f = g + 3 := ⟨f - 3, by simp [fuelT] at hf; omega⟩
    have := pAtom_lit (g + 2) n r (.nm n) (pAnn_name g true n (dq :: r) hv ⟨ae_dq r, sp_dq r⟩)
    simpa [render, quoted, shapeOf] using this
  | optional t ih =>
    intro hv f r hf hr
    simp only [Ty.valid] at hv
    obtain ⟨g, rfl⟩ : ∃ g, f = g + 2 := ⟨f - 2, by simp [fuelT] at hf; omega⟩
    have h1 := ih hv g (']' :: r) (by simp [fuelT] at hf; omega) (ae_bracket r)
    have h2 := pAtom_app1 (g + 1) false "Optional".toList (render .direct t) r (shapeOf t) (by decide)
      (pAnn_end h1 (sp_bracket r))
    rw [app1_Optional] at h2
    simpa [render, optional, pre, shapeOf] using h2
  | list t ih =>
    intro hv f r hf hr
    simp only [Ty.valid] at hv
    obtain ⟨g, rfl⟩ : ∃ g, f = g + 2 := ⟨f - 2, by simp [fuelT] at hf; omega⟩
    have h1 := ih hv g (']' :: r) (by simp [fuelT] at hf; omega) (ae_bracket r)
    have h2 := pAtom_app1 (g + 1) false "List".toList (render .direct t) r (shapeOf t) (by decide)
      (pAnn_end h1 (sp_bracket r))
    rw [app1_List] at h2
    simpa [render, list, pre, shapeOf] using h2
  | dict k v ih =>
    intro hv f r hf hr
    simp only [Ty.valid, Bool.and_eq_true] at hv
    obtain ⟨g, rfl⟩ : ∃ g, f = g + 3 := ⟨f - 3, by have := fuelT_pos v; simp [fuelT] at hf; omega⟩
    have h1 := ih hv.2 (g + 1) (']' :: r) (by simp [fuelT] at hf; omega) (ae_bracket r)
    have hk := pAnn_name g false k (',' :: ' ' :: (render .direct v ++ ']' :: r)) hv.1 ⟨ae_comma _, sp_comma _⟩
    have h2 := pAtom_app2 (g + 2) false "Dict".toList k (render .direct v) r (.nm k) (shapeOf v) (by decide)
      hk (pAnn_end h1 (sp_bracket r))
    rw [app2_Dict] at h2
    simpa [render, dict, pre, shapeOf] using h2
  | union a b iha ihb =>
    intro hv f r hf hr
    simp only [Ty.valid, Bool.and_eq_true] at hv
    obtain ⟨g, rfl⟩ : ∃ g, f = g + 2 := ⟨f - 2, by simp [fuelT] at hf; omega⟩
    have h1 := iha hv.1 g (',' :: ' ' :: (render .direct b ++ ']' :: r)) (by simp [fuelT] at hf; omega) (ae_comma _)
    have h3 := ihb hv.2 g (']' :: r) (by simp [fuelT] at hf; omega) (ae_bracket r)
    have h2 := pAtom_app2 (g + 1) false "Union".toList (render .direct a) (render .direct b) r (shapeOf a) (shapeOf b)
      (by decide) (pAnn_end h1 (sp_comma _)) (pAnn_end h3 (sp_bracket r))
    rw [app2_Union] at h2
    simpa [render, union, joinSep, pre, shapeOf] using h2
  | iterable n =>
    intro hv f r hf hr
    simp only [Ty.valid] at hv
    obtain ⟨g, rfl⟩ : ∃ g, f = g + 3 := ⟨f - 3, by simp [fuelT] at hf; omega⟩
    have h2 := pAtom_app1 (g + 2) false "Iterable".toList n r (.nm n) (by decide)
      (pAnn_name g false n (']' :: r) hv ⟨ae_bracket r, sp_bracket r⟩)
    rw [app1_Iterable] at h2
    simpa [render, iterable, pre, shapeOf] using h2
  | asyncIterable n =>
    intro hv f r hf hr
    simp only [Ty.valid] at hv
    obtain ⟨g, rfl⟩ : ∃ g, f = g + 3 := ⟨f - 3, by simp [fuelT] at hf; omega⟩
    have h2 := pAtom_app1 (g + 2) false "AsyncIterable".toList n r (.nm n) (by decide)
      (pAnn_name g false n (']' :: r) hv ⟨ae_bracket r, sp_bracket r⟩)
    rw [app1_AsyncIterable] at h2
    simpa [render, asyncIterable, pre, shapeOf] using h2
  | asyncIterator n =>
    intro hv f r hf hr
    simp only [Ty.valid] at hv
    obtain ⟨g, rfl⟩ : ∃ g, f = g + 3 := ⟨f - 3, by simp [fuelT] at hf; omega⟩
    have h2 := pAtom_app1 (g + 2) false "AsyncIterator".toList n r (.nm n) (by decide)
      (pAnn_name g false n (']' :: r) hv ⟨ae_bracket r, sp_bracket r⟩)
    rw [app1_AsyncIterator] at h2
    simpa [render, asyncIterator, pre, shapeOf] using h2

theorem parseT_root (e : Ty) : e.valid = true → ∀ f r, fuelT e ≤ f → AtomEnd r →
    pAtom f false (render .root e ++ r) = some (shapeOf e, r) := by
  induction e with
  | name n =>
    intro hv f r hf hr
    simp only [Ty.valid] at hv
    obtain ⟨g, rfl⟩ : ∃ g, f = g + 1 := ⟨f - 1, by simp [fuelT] at hf; omega⟩
    exact pAtom_name g false n r hv hr
  | ref n =>
    intro hv f r hf hr
    simp only [Ty.valid] at hv
    obtain ⟨g, rfl⟩ : ∃ g, f = g + 3 := ⟨f - 3, by simp [fuelT] at hf; omega⟩
    have := pAtom_lit (g + 2) n r (.nm n) (pAnn_name g true n (dq :: r) hv ⟨ae_dq r, sp_dq r⟩)
    simpa [render, quoted, shapeOf] using this
  | optional t ih =>
    intro hv f r hf hr
    simp only [Ty.valid] at hv
    obtain ⟨g, rfl⟩ : ∃ g, f = g + 2 := ⟨f - 2, by simp [fuelT] at hf; omega⟩
    have h1 := ih hv g (']' :: r) (by simp [fuelT] at hf; omega) (ae_bracket r)
    have h2 := pAtom_app1 (g + 1) false "typing.Optional".toList (render .root t) r (shapeOf t) (by decide)
      (pAnn_end h1 (sp_bracket r))
    rw [app1_tOptional] at h2
    simpa [render, optional, pre, shapeOf] using h2
  | list t ih =>
    intro hv f r hf hr
    simp only [Ty.valid] at hv
    obtain ⟨g, rfl⟩ : ∃ g, f = g + 2 := ⟨f - 2, by simp [fuelT] at hf; omega⟩
    have h1 := ih hv g (']' :: r) (by simp [fuelT] at hf; omega) (ae_bracket r)
    have h2 := pAtom_app1 (g + 1) false "typing.List".toList (render .root t) r (shapeOf t) (by decide)
      (pAnn_end h1 (sp_bracket r))
    rw [app1_tList] at h2
    simpa [render, list, pre, shapeOf] using h2
  | dict k v ih =>
    intro hv f r hf hr
    simp only [Ty.valid, Bool.and_eq_true] at hv
    obtain ⟨g, rfl⟩ : ∃ g, f = g + 3 := ⟨f - 3, by have := fuelT_pos v; simp [fuelT] at hf; omega⟩
    have h1 := ih hv.2 (g + 1) (']' :: r) (by simp [fuelT] at hf; omega) (ae_bracket r)
    have hk := pAnn_name g false k (',' :: ' ' :: (render .root v ++ ']' :: r)) hv.1 ⟨ae_comma _, sp_comma _⟩
    have h2 := pAtom_app2 (g + 2) false "typing.Dict".toList k (render .root v) r (.nm k) (shapeOf v) (by decide)
      hk (pAnn_end h1 (sp_bracket r))
    rw [app2_tDict] at h2
    simpa [render, dict, pre, shapeOf] using h2
  | union a b iha ihb =>
    intro hv f r hf hr
    simp only [Ty.valid, Bool.and_eq_true] at hv
    obtain ⟨g, rfl⟩ : ∃ g, f = g + 2 := ⟨f - 2, by simp [fuelT] at hf; omega⟩
    have h1 := iha hv.1 g (',' :: ' ' :: (render .root b ++ ']' :: r)) (by simp [fuelT] at hf; omega) (ae_comma _)
    have h3 := ihb hv.2 g (']' :: r) (by simp [fuelT] at hf; omega) (ae_bracket r)
    have h2 := pAtom_app2 (g + 1) false "typing.Union".toList (render .root a) (render .root b) r (shapeOf a) (shapeOf b)
      (by decide) (pAnn_end h1 (sp_comma _)) (pAnn_end h3 (sp_bracket r))
    rw [app2_tUnion] at h2
    simpa [render, union, joinSep, pre, shapeOf] using h2
  | iterable n =>
    intro hv f r hf hr
    simp only [Ty.valid] at hv
    obtain ⟨g, rfl⟩ : ∃ g, f = g + 3 := ⟨f - 3, by simp [fuelT] at hf; omega⟩
    have h2 := pAtom_app1 (g + 2) false "typing.Iterable".toList n r (.nm n) (by decide)
      (pAnn_name g false n (']' :: r) hv ⟨ae_bracket r, sp_bracket r⟩)
    rw [app1_tIterable] at h2
    simpa [render, iterable, pre, shapeOf] using h2
  | asyncIterable n =>
    intro hv f r hf hr
    simp only [Ty.valid] at hv
    obtain ⟨g, rfl⟩ : ∃ g, f = g + 3 := ⟨f - 3, by simp [fuelT] at hf; omega⟩
    have h2 := pAtom_app1 (g + 2) false "typing.AsyncIterable".toList n r (.nm n) (by decide)
      (pAnn_name g false n (']' :: r) hv ⟨ae_bracket r, sp_bracket r⟩)
    rw [app1_tAsyncIterable] at h2
    simpa [render, asyncIterable, pre, shapeOf] using h2
  | asyncIterator n =>
    intro hv f r hf hr
    simp only [Ty.valid] at hv
    obtain ⟨g, rfl⟩ : ∃ g, f = g + 3 := ⟨f - 3, by simp [fuelT] at hf; omega⟩
    have h2 := pAtom_app1 (g + 2) false "typing.AsyncIterator".toList n r (.nm n) (by decide)
      (pAnn_name g false n (']' :: r) hv ⟨ae_bracket r, sp_bracket r⟩)
    rw [app1_tAsyncIterator] at h2
    simpa [render, asyncIterator, pre, shapeOf] using h2

/-! ### the 3.10 compiler (typing.310) -/

def iOpt (x : Str) : Str := x ++ " | None".toList
def iList (x : Str) : Str := "list[".toList ++ x ++ "]".toList
def iDict (k x : Str) : Str := "dict[".toList ++ k ++ ", ".toList ++ x ++ "]".toList
def iUnion (a b : Str) : Str := a ++ " | ".toList ++ b
def iIter (n : Str) : Str := "Iterable[".toList ++ n ++ "]".toList
def iAIble (n : Str) : Str := "AsyncIterable[".toList ++ n ++ "]".toList
def iAItor (n : Str) : Str := "AsyncIterator[".toList ++ n ++ "]".toList

/-- what the 3.10 compiler writes between the quotes -/
def inner310 : Ty → Str
  | .name n => n
  | .ref n => n
  | .optional t => iOpt (inner310 t)
  | .list t => iList (inner310 t)
  | .dict k v => iDict k (inner310 v)
  | .union a b => iUnion (inner310 a) (inner310 b)
  | .iterable n => iIter n
  | .asyncIterable n => iAIble n
  | .asyncIterator n => iAItor n

def Ty.isName : Ty → Bool
  | .name _ => true
  | _ => false

theorem fmt_name (n : Str) (hv : validName n = true) : fmt n = n := by
  cases n with
  | nil => rfl
  | cons a n =>
    simp only [validName, List.all_cons, Bool.and_eq_true] at hv
    have := ne_dq_of_name hv.2.1
    unfold fmt
    split
    · rename_i h; cases h; simp [dq] at this
    · rfl

theorem fmt_quoted (s : Str) : fmt (quoted s) = s := by
  simp [fmt, quoted, dq]

theorem optional_310 (t : Str) : optional .c310 t = quoted (iOpt (fmt t)) := rfl
theorem list_310 (t : Str) : list .c310 t = quoted (iList (fmt t)) := rfl
theorem dict_310 (k v : Str) : dict .c310 k v = quoted (iDict k (fmt v)) := rfl
theorem union2_310 (a b : Str) : union .c310 [a, b] = quoted (iUnion (fmt a) (fmt b)) := rfl
theorem iterable_310 (t : Str) : iterable .c310 t = quoted (iIter t) := rfl
theorem asyncIterable_310 (t : Str) : asyncIterable .c310 t = quoted (iAIble t) := rfl
theorem asyncIterator_310 (t : Str) : asyncIterator .c310 t = quoted (iAItor t) := rfl

/-- the 3.10 compiler's output is the bare name, or the inner text in one pair of quotes;
    `_fmt` of it is the inner text -/
theorem render310 (e : Ty) (hv : e.valid = true) :
    (render .c310 e = if e.isName then inner310 e else quoted (inner310 e)) ∧ fmt (render .c310 e) = inner310 e := by
  induction e with
  | name n =>
    simp only [Ty.valid] at hv
    simp only [render, Ty.isName, inner310, if_true, true_and]
    exact fmt_name n hv
  | ref n =>
    simp only [render, Ty.isName, inner310, fmt_quoted]
    simp
  | optional t ih =>
    simp only [Ty.valid] at hv
    have h := (ih hv).2
    simp only [render, optional_310, Ty.isName, inner310, h, fmt_quoted]
    simp
  | list t ih =>
    simp only [Ty.valid] at hv
    have h := (ih hv).2
    simp only [render, list_310, Ty.isName, inner310, h, fmt_quoted]
    simp
  | dict k v ih =>
    simp only [Ty.valid, Bool.and_eq_true] at hv
    have h := (ih hv.2).2
    simp only [render, dict_310, Ty.isName, inner310, h, fmt_quoted]
    simp
  | union a b iha ihb =>
    simp only [Ty.valid, Bool.and_eq_true] at hv
    have h1 := (iha hv.1).2
    have h2 := (ihb hv.2).2
    simp only [render, union2_310, Ty.isName, inner310, h1, h2, fmt_quoted]
    simp
  | iterable n =>
    simp only [render, iterable_310, Ty.isName, inner310, fmt_quoted]
    simp
  | asyncIterable n =>
    simp only [render, asyncIterable_310, Ty.isName, inner310, fmt_quoted]
    simp
  | asyncIterator n =>
    simp only [render, asyncIterator_310, Ty.isName, inner310, fmt_quoted]
    simp

theorem mkOr_assoc (a b c : Shape) : mkOr (mkOr a b) c = mkOr a (mkOr b c) := by
  induction a with
  | or x y _ ihy => simp only [mkOr, ihy]
  | nm n => simp only [mkOr]
  | app1 h x _ => simp only [mkOr]
  | app2 h x y _ _ => simp only [mkOr]

def alts : Ty → Nat
  | .optional t => alts t + 1
  | .union a b => alts a + alts b
  | _ => 1

def fuelI : Ty → Nat
  | .name _ => 2
  | .ref _ => 2
  | .optional t => fuelI t + 2
  | .list t => fuelI t + 2
  | .dict _ v => fuelI v + 2
  | .union a b => fuelI a + fuelI b
  | .iterable _ => 4
  | .asyncIterable _ => 4
  | .asyncIterator _ => 4

theorem alts_le_fuelI (e : Ty) : alts e + 1 ≤ fuelI e := by
  induction e with
  | optional t ih => simp only [alts, fuelI]; omega
  | union a b iha ihb => simp only [alts, fuelI]; omega
  | _ => simp [alts, fuelI]

theorem bar_eq (tail : Str) : " | ".toList ++ tail = ' ' :: ('|' :: ' ' :: tail) := by simp

/-- an atom, seen as a one-element union chain (inside a literal or not) -/
theorem chain_of_atom (q : Bool) (A : Str) (s : Shape) (k : Nat)
    (hA : ∀ g r, k ≤ g → AtomEnd r → pAtom g q (A ++ r) = some (s, r)) :
    (∀ f r, k + 1 ≤ f → ChainEnd r → pAnn f q (A ++ r) = some (s, r)) ∧
    (∀ g tail b r', k ≤ g → pAnn g q tail = some (b, r') →
      pAnn (g + 1) q (A ++ (" | ".toList ++ tail)) = some (mkOr s b, r')) := by
  constructor
  · intro f r hf hr
    obtain ⟨g, rfl⟩ : ∃ g, f = g + 1 := ⟨f - 1, by omega⟩
    exact pAnn_end (hA g r (by omega) hr.1) hr.2
  · intro g tail b r' hg ht
    have h := hA g (" | ".toList ++ tail) hg (by rw [bar_eq]; exact ae_space _)
    exact pAnn_or h ht

/-- the statement proved by induction for the text between the quotes of the 3.10
    compiler: it parses to the shape when an end follows, and it prepends its
    alternatives to whatever union follows after ` | ` -/
def ChainOK (e : Ty) : Prop :=
  (∀ f r, fuelI e ≤ f → ChainEnd r → pAnn f true (inner310 e ++ r) = some (shapeOf e, r)) ∧
  (∀ g tail b r', fuelI e ≤ g + alts e → pAnn g true tail = some (b, r') →
    pAnn (g + alts e) true (inner310 e ++ (" | ".toList ++ tail)) = some (mkOr (shapeOf e) b, r'))

theorem chainOK_of_atom (e : Ty) (k : Nat) (hk : fuelI e = k + 1) (ha : alts e = 1)
    (hA : ∀ g r, k ≤ g → AtomEnd r → pAtom g true (inner310 e ++ r) = some (shapeOf e, r)) : ChainOK e := by
  have h := chain_of_atom true (inner310 e) (shapeOf e) k hA
  refine ⟨fun f r hf hr => h.1 f r (by omega) hr, fun g tail b r' hg ht => ?_⟩
  rw [ha] at hg ⊢
  exact h.2 g tail b r' (by omega) ht

theorem pAnn_zero (q : Bool) (s : Str) : pAnn 0 q s = none := by unfold pAnn; rfl

theorem alts_pos (e : Ty) : 1 ≤ alts e := by
  induction e with
  | optional t ih => simp only [alts]; omega
  | union a b iha ihb => simp only [alts]; omega
  | _ => simp [alts]

theorem parseI (e : Ty) : e.valid = true → ChainOK e := by
  induction e with
  | name n =>
    intro hv
    simp only [Ty.valid] at hv
    apply chainOK_of_atom _ 1 (by simp [fuelI]) (by simp [alts])
    intro g r hg hr
    obtain ⟨g', rfl⟩ : ∃ g', g = g' + 1 := ⟨g - 1, by omega⟩
    simpa [inner310, shapeOf] using pAtom_name g' true n r hv hr
  | ref n =>
    intro hv
    simp only [Ty.valid] at hv
    apply chainOK_of_atom _ 1 (by simp [fuelI]) (by simp [alts])
    intro g r hg hr
    obtain ⟨g', rfl⟩ : ∃ g', g = g' + 1 := ⟨g - 1, by omega⟩
    simpa [inner310, shapeOf] using pAtom_name g' true n r hv hr
  | list t ih =>
    intro hv
    simp only [Ty.valid] at hv
    apply chainOK_of_atom _ (fuelI t + 1) (by simp [fuelI]) (by simp [alts])
    intro g r hg hr
    obtain ⟨g', rfl⟩ : ∃ g', g = g' + 1 := ⟨g - 1, by omega⟩
    have h1 := (ih hv).1 g' (']' :: r) (by omega) ⟨ae_bracket r, sp_bracket r⟩
    have h2 := pAtom_app1 g' true "list".toList (inner310 t) r (shapeOf t) (by decide) h1
    rw [app1_list] at h2
    simp only [inner310, shapeOf]
    unfold iList
    simpa using h2
  | dict k v ih =>
    intro hv
    simp only [Ty.valid, Bool.and_eq_true] at hv
    apply chainOK_of_atom _ (fuelI v + 1) (by simp [fuelI]) (by simp [alts])
    intro g r hg hr
    have hv2 := alts_le_fuelI v
    have ha1 := alts_pos v
    obtain ⟨g', rfl⟩ : ∃ g', g = g' + 3 := ⟨g - 3, by omega⟩
    have h1 := (ih hv.2).1 (g' + 2) (']' :: r) (by omega) ⟨ae_bracket r, sp_bracket r⟩
    have hk := pAnn_name g' true k (',' :: ' ' :: (inner310 v ++ ']' :: r)) hv.1 ⟨ae_comma _, sp_comma _⟩
    have h2 := pAtom_app2 (g' + 2) true "dict".toList k (inner310 v) r (.nm k) (shapeOf v) (by decide) hk h1
    rw [app2_dict] at h2
    simp only [inner310, shapeOf]
    unfold iDict
    simpa using h2
  | iterable n =>
    intro hv
    simp only [Ty.valid] at hv
    apply chainOK_of_atom _ 3 (by simp [fuelI]) (by simp [alts])
    intro g r hg hr
    obtain ⟨g', rfl⟩ : ∃ g', g = g' + 3 := ⟨g - 3, by omega⟩
    have h2 := pAtom_app1 (g' + 2) true "Iterable".toList n r (.nm n) (by decide)
      (pAnn_name g' true n (']' :: r) hv ⟨ae_bracket r, sp_bracket r⟩)
    rw [app1_Iterable] at h2
    simp only [inner310, shapeOf]
    unfold iIter
    simpa using h2
  | asyncIterable n =>
    intro hv
    simp only [Ty.valid] at hv
    apply chainOK_of_atom _ 3 (by simp [fuelI]) (by simp [alts])
    intro g r hg hr
    obtain ⟨g', rfl⟩ : ∃ g', g = g' + 3 := ⟨g - 3, by omega⟩
    have h2 := pAtom_app1 (g' + 2) true "AsyncIterable".toList n r (.nm n) (by decide)
      (pAnn_name g' true n (']' :: r) hv ⟨ae_bracket r, sp_bracket r⟩)
    rw [app1_AsyncIterable] at h2
    simp only [inner310, shapeOf]
    unfold iAIble
    simpa using h2
  | asyncIterator n =>
    intro hv
    simp only [Ty.valid] at hv
    apply chainOK_of_atom _ 3 (by simp [fuelI]) (by simp [alts])
    intro g r hg hr
    obtain ⟨g', rfl⟩ : ∃ g', g = g' + 3 := ⟨g - 3, by omega⟩
    have h2 := pAtom_app1 (g' + 2) true "AsyncIterator".toList n r (.nm n) (by decide)
      (pAnn_name g' true n (']' :: r) hv ⟨ae_bracket r, sp_bracket r⟩)
    rw [app1_AsyncIterator] at h2
    simp only [inner310, shapeOf]
    unfold iAItor
    simpa using h2
  | optional t ih =>
    intro hv
    simp only [Ty.valid] at hv
    obtain ⟨ih1, ih2⟩ := ih hv
    have hfa := alts_le_fuelI t
    have hnone : validName "None".toList = true := by decide
    constructor
    · intro f r hf hr
      simp only [fuelI] at hf
      obtain ⟨g, rfl⟩ : ∃ g, f = g + 2 + alts t := ⟨f - 2 - alts t, by omega⟩
      have h := ih2 (g + 2) ("None".toList ++ r) (.nm "None".toList) r (by omega)
        (pAnn_name g true "None".toList r hnone hr)
      simpa [inner310, iOpt, shapeOf, noneShape] using h
    · intro g tail b r' hg ht
      simp only [fuelI, alts] at hg ⊢
      obtain ⟨g', rfl⟩ : ∃ g', g = g' + 1 := by
        cases g with
        | zero => rw [pAnn_zero] at ht; cases ht
        | succ g' => exact ⟨g', rfl⟩
      obtain ⟨g'', rfl⟩ : ∃ g'', g' = g'' + 1 := by
        cases g' with
        | zero =>
          exfalso
          unfold pAnn at ht
          unfold pAtom at ht
          cases tail <;> simp at ht
        | succ g'' => exact ⟨g'', rfl⟩
      have hn := (chain_of_atom true "None".toList (.nm "None".toList) 1
        (fun g r hg hr => by
          obtain ⟨g1, rfl⟩ : ∃ g1, g = g1 + 1 := ⟨g - 1, by omega⟩
          exact pAtom_name g1 true _ r hnone hr)).2 (g'' + 1 + 1) tail b r' (by omega) ht
      have h := ih2 (g'' + 1 + 1 + 1) ("None".toList ++ (" | ".toList ++ tail)) _ r' (by omega) hn
      have e1 : g'' + 1 + 1 + (alts t + 1) = g'' + 1 + 1 + 1 + alts t := by omega
      rw [e1]
      simpa [inner310, iOpt, shapeOf, noneShape, mkOr_assoc] using h
  | union a b iha ihb =>
    intro hv
    simp only [Ty.valid, Bool.and_eq_true] at hv
    obtain ⟨a1, a2⟩ := iha hv.1
    obtain ⟨b1, b2⟩ := ihb hv.2
    have hfa := alts_le_fuelI a
    have hfb := alts_le_fuelI b
    constructor
    · intro f r hf hr
      simp only [fuelI] at hf
      obtain ⟨g, rfl⟩ : ∃ g, f = g + alts a := ⟨f - alts a, by omega⟩
      have h := a2 g (inner310 b ++ r) (shapeOf b) r (by omega) (b1 g r (by omega) hr)
      simpa [inner310, iUnion, shapeOf] using h
    · intro g tail c r' hg ht
      simp only [fuelI, alts] at hg ⊢
      have hb := b2 g tail c r' (by omega) ht
      have h := a2 (g + alts b) (inner310 b ++ (" | ".toList ++ tail)) _ r' (by omega) hb
      have e1 : g + (alts a + alts b) = g + alts b + alts a := by omega
      rw [e1]
      simpa [inner310, iUnion, shapeOf, mkOr_assoc] using h


theorem fuelT_le_direct (e : Ty) : fuelT e ≤ 2 * (render .direct e).length + 1 := by
  induction e with
  | name n => simp only [fuelT]; omega
  | ref n => simp only [fuelT, render, quoted, List.length_cons, List.length_append]; omega
  | optional t ih => simp [fuelT, render, optional, pre] at *; omega
  | list t ih => simp [fuelT, render, list, pre] at *; omega
  | dict k v ih => simp [fuelT, render, dict, pre] at *; omega
  | union a b iha ihb => simp [fuelT, render, union, joinSep, pre] at *; omega
  | iterable n => simp [fuelT, render, iterable, pre]; omega
  | asyncIterable n => simp [fuelT, render, asyncIterable, pre]; omega
  | asyncIterator n => simp [fuelT, render, asyncIterator, pre]; omega

theorem denote_direct (e : Ty) (hv : e.valid = true) : denote (render .direct e) = some (shapeOf e) := by
  have h := parseT_direct e hv (2 * (render .direct e).length + 1) [] (fuelT_le_direct e) atomEnd_nil
  have h2 := pAnn_end h sp_nil
  simp only [List.append_nil] at h2
  unfold denote denoteWith
  simp only [h2]

theorem fuelT_le_root (e : Ty) : fuelT e ≤ 2 * (render .root e).length + 1 := by
  induction e with
  | name n => simp only [fuelT]; omega
  | ref n => simp only [fuelT, render, quoted, List.length_cons, List.length_append]; omega
  | optional t ih => simp [fuelT, render, optional, pre] at *; omega
  | list t ih => simp [fuelT, render, list, pre] at *; omega
  | dict k v ih => simp [fuelT, render, dict, pre] at *; omega
  | union a b iha ihb => simp [fuelT, render, union, joinSep, pre] at *; omega
  | iterable n => simp [fuelT, render, iterable, pre]; omega
  | asyncIterable n => simp [fuelT, render, asyncIterable, pre]; omega
  | asyncIterator n => simp [fuelT, render, asyncIterator, pre]; omega

theorem denote_root (e : Ty) (hv : e.valid = true) : denote (render .root e) = some (shapeOf e) := by
  have h := parseT_root e hv (2 * (render .root e).length + 1) [] (fuelT_le_root e) atomEnd_nil
  have h2 := pAnn_end h sp_nil
  simp only [List.append_nil] at h2
  unfold denote denoteWith
  simp only [h2]

theorem fuelI_le (e : Ty) : fuelI e ≤ 2 * (inner310 e).length + 4 := by
  induction e with
  | name n => simp only [fuelI]; omega
  | ref n => simp only [fuelI]; omega
  | optional t ih => simp only [fuelI, inner310]; unfold iOpt; simp at *; omega
  | list t ih => simp only [fuelI, inner310]; unfold iList; simp at *; omega
  | dict k v ih => simp only [fuelI, inner310]; unfold iDict; simp at *; omega
  | union a b iha ihb => simp only [fuelI, inner310]; unfold iUnion; simp at *; omega
  | iterable n => simp only [fuelI, inner310]; unfold iIter; simp
  | asyncIterable n => simp only [fuelI, inner310]; unfold iAIble; simp
  | asyncIterator n => simp only [fuelI, inner310]; unfold iAItor; simp

theorem denote_quoted_inner (e : Ty) (hv : e.valid = true) : denote (quoted (inner310 e)) = some (shapeOf e) := by
  have h1 := (parseI e hv).1 (2 * (inner310 e).length + 4) [dq] (fuelI_le e) ⟨ae_dq [], sp_dq []⟩
  have h2 := pAtom_lit _ (inner310 e) [] (shapeOf e) h1
  have h3 := pAnn_end h2 sp_nil
  unfold denote denoteWith
  have e1 : 2 * (quoted (inner310 e)).length + 2 = 2 * (inner310 e).length + 4 + 1 + 1 := by
    simp [quoted]; omega
  rw [e1]
  simp only [quoted] at h3 ⊢
  simp only [h3]

theorem denote_c310 (e : Ty) (hv : e.valid = true) : denote (render .c310 e) = some (shapeOf e) := by
  have hr := (render310 e hv).1
  cases e with
  | name n =>
    simp only [Ty.valid] at hv
    have h := pAnn_name (2 * n.length) false n [] hv ⟨atomEnd_nil, sp_nil⟩
    simp only [List.append_nil] at h
    simp only [render, shapeOf]
    unfold denote denoteWith
    simp only [h]
  | _ =>
    rw [hr]
    simp only [Ty.isName, Bool.false_eq_true, if_false]
    exact denote_quoted_inner _ hv

end Bp.Typing
