import BpProofs.Typing
/-
  Helper lemmas for C18: quoting.  `wellQuoted` on what the compilers and the template
  sites produce, `str.strip('"')` on it.
-/
namespace Bp.Typing

/-- no `"` anywhere -/
def noQ (s : Str) : Bool := s.all (fun ch => ch != dq)

theorem noQ_nil : noQ [] = true := rfl
theorem noQ_cons (a : Char) (s : Str) : noQ (a :: s) = (a != dq && noQ s) := by simp [noQ]
theorem noQ_append (a b : Str) : noQ (a ++ b) = (noQ a && noQ b) := by simp [noQ]

theorem noQ_of_all_name (n : Str) (h : n.all isNameChar = true) : noQ n = true := by
  induction n with
  | nil => rfl
  | cons a n ih =>
    simp only [List.all_cons, Bool.and_eq_true] at h
    rw [noQ_cons, ih h.2]
    have := ne_dq_of_name h.1
    simp [bne, this]

theorem noQ_of_valid (n : Str) (h : validName n = true) : noQ n = true := by
  simp only [validName, Bool.and_eq_true] at h
  exact noQ_of_all_name n h.2

theorem ne_nil_of_valid (n : Str) (h : validName n = true) : n ≠ [] := by
  intro e; subst e; simp [validName] at h

theorem wq_plain (X : Str) (p : Bool) (h : noQ X = true) : wqScan (.code false) p X = true := by
  induction X generalizing p with
  | nil => simp [wqScan]
  | cons ch r ih =>
    rw [noQ_cons] at h
    simp only [Bool.and_eq_true, bne_iff_ne, ne_eq] at h
    have hc : (ch == dq) = false := by simp [h.1]
    simp [wqScan, hc, ih _ h.2]

theorem wq_lit (X r : Str) (e p : Bool) (h : noQ X = true) :
    wqScan (.lit e) p (X ++ dq :: r) = ((!(e && X.isEmpty)) && wqScan (.code true) false r) := by
  induction X generalizing e p with
  | nil => simp [wqScan]
  | cons ch X ih =>
    rw [noQ_cons] at h
    simp only [Bool.and_eq_true, bne_iff_ne, ne_eq] at h
    have hc : (ch == dq) = false := by simp [h.1]
    simp [wqScan, hc, ih false false h.2]

theorem wq_quoted (X : Str) (hne : X ≠ []) (h : noQ X = true) : wellQuoted (quoted X) = true := by
  unfold wellQuoted quoted
  have := wq_lit X [] true false h
  cases X with
  | nil => exact absurd rfl hne
  | cons a X =>
    simp [wqScan] at this ⊢
    exact this

theorem wq_plain' (X : Str) (hne : X ≠ []) (h : noQ X = true) : wellQuoted X = true := by
  unfold wellQuoted
  cases X with
  | nil => exact absurd rfl hne
  | cons a X => simp [wq_plain _ false h]

/-! ### `strip('"')` -/

theorem dropWhile_noQ (X : Str) (h : noQ X = true) : X.dropWhile (· == dq) = X := by
  cases X with
  | nil => rfl
  | cons a X =>
    rw [noQ_cons] at h
    simp only [Bool.and_eq_true, bne_iff_ne, ne_eq] at h
    have hc : (a == dq) = false := by simp [h.1]
    simp [List.dropWhile, hc]

theorem noQ_reverse (X : Str) : noQ X.reverse = noQ X := by simp [noQ]

theorem stripQ_noQ (X : Str) (h : noQ X = true) : stripQ X = X := by
  unfold stripQ
  rw [dropWhile_noQ X h, dropWhile_noQ X.reverse (by rw [noQ_reverse]; exact h), List.reverse_reverse]

theorem stripQ_quoted (X : Str) (hne : X ≠ []) (h : noQ X = true) : stripQ (quoted X) = X := by
  unfold stripQ quoted
  cases X with
  | nil => exact absurd rfl hne
  | cons a X =>
    have ha : (a == dq) = false := by
      rw [noQ_cons] at h
      simp only [Bool.and_eq_true, bne_iff_ne, ne_eq] at h
      simp [h.1]
    have h1 : (dq :: (a :: X ++ [dq])).dropWhile (· == dq) = a :: X ++ [dq] := by
      simp [List.dropWhile, ha]
    rw [h1]
    have h2 : (a :: X ++ [dq]).reverse = dq :: (a :: X).reverse := by simp
    rw [h2]
    have h3 : (dq :: (a :: X).reverse).dropWhile (· == dq) = (a :: X).reverse := by
      rw [List.dropWhile_cons]
      simp only [beq_self_eq_true, if_true]
      exact dropWhile_noQ _ (by rw [noQ_reverse]; exact h)
    rw [h3, List.reverse_reverse]

/-! ### the methods, unfolded -/
theorem optional_direct (t : Str) : optional .direct t = "Optional[".toList ++ t ++ "]".toList := rfl
theorem optional_root (t : Str) : optional .root t = "typing.Optional[".toList ++ t ++ "]".toList := by
  show "typing.".toList ++ "Optional[".toList ++ t ++ "]".toList = _
  simp
theorem list_direct (t : Str) : list .direct t = "List[".toList ++ t ++ "]".toList := rfl
theorem list_root (t : Str) : list .root t = "typing.List[".toList ++ t ++ "]".toList := by
  show "typing.".toList ++ "List[".toList ++ t ++ "]".toList = _
  simp
theorem iterable_direct (t : Str) : iterable .direct t = "Iterable[".toList ++ t ++ "]".toList := rfl
theorem iterable_root (t : Str) : iterable .root t = "typing.Iterable[".toList ++ t ++ "]".toList := by
  show "typing.".toList ++ "Iterable[".toList ++ t ++ "]".toList = _
  simp
theorem asyncIterable_direct (t : Str) : asyncIterable .direct t = "AsyncIterable[".toList ++ t ++ "]".toList := rfl
theorem asyncIterable_root (t : Str) : asyncIterable .root t = "typing.AsyncIterable[".toList ++ t ++ "]".toList := by
  show "typing.".toList ++ "AsyncIterable[".toList ++ t ++ "]".toList = _
  simp
theorem asyncIterator_direct (t : Str) : asyncIterator .direct t = "AsyncIterator[".toList ++ t ++ "]".toList := rfl
theorem asyncIterator_root (t : Str) : asyncIterator .root t = "typing.AsyncIterator[".toList ++ t ++ "]".toList := by
  show "typing.".toList ++ "AsyncIterator[".toList ++ t ++ "]".toList = _
  simp
theorem dict_direct (k v : Str) : dict .direct k v = "Dict[".toList ++ k ++ ", ".toList ++ v ++ "]".toList := rfl
theorem dict_root (k v : Str) : dict .root k v = "typing.Dict[".toList ++ k ++ ", ".toList ++ v ++ "]".toList := by
  show "typing.".toList ++ "Dict[".toList ++ k ++ ", ".toList ++ v ++ "]".toList = _
  simp
theorem union2_direct (a b : Str) : union .direct [a, b] = "Union[".toList ++ a ++ ", ".toList ++ b ++ "]".toList := rfl
theorem union2_root (a b : Str) : union .root [a, b] = "typing.Union[".toList ++ a ++ ", ".toList ++ b ++ "]".toList := by
  show "typing.".toList ++ "Union[".toList ++ (a ++ ", ".toList ++ b) ++ "]".toList = _
  simp


/-! ### scanning what the `typing`-style compilers render -/

/-- what may follow a complete annotation inside a larger one: nothing, or a character
    that is neither part of a name nor a quote -/
def Closer (r : Str) : Prop := ∀ ch r', r = ch :: r' → isNameChar ch = false ∧ (ch == dq) = false

/-- the scan after such a character -/
def fin : Str → Bool
  | [] => true
  | _ :: r' => wqScan (.code false) false r'

theorem scan_closer (r : Str) (a p : Bool) (hr : Closer r) : wqScan (.code a) p r = fin r := by
  cases r with
  | nil => simp [wqScan, fin]
  | cons ch r' =>
    obtain ⟨h1, h2⟩ := hr ch r' rfl
    simp [wqScan, fin, h1, h2]

theorem closer_bracket (r : Str) : Closer (']' :: r) := by
  intro ch r' e; cases e; exact ⟨by decide, by decide⟩
theorem closer_comma (r : Str) : Closer (',' :: r) := by
  intro ch r' e; cases e; exact ⟨by decide, by decide⟩
theorem closer_space (r : Str) : Closer (' ' :: r) := by
  intro ch r' e; cases e; exact ⟨by decide, by decide⟩
theorem closer_nil : Closer [] := by intro ch r' e; cases e

def lastName (p : Bool) : Str → Bool
  | [] => p
  | ch :: r => lastName (isNameChar ch) r

/-- quote-free code is scanned through -/
theorem wq_code (X r : Str) (p : Bool) (h : noQ X = true) :
    wqScan (.code false) p (X ++ r) = wqScan (.code false) (lastName p X) r := by
  induction X generalizing p with
  | nil => rfl
  | cons ch X ih =>
    rw [noQ_cons] at h
    simp only [Bool.and_eq_true, bne_iff_ne, ne_eq] at h
    have hc : (ch == dq) = false := by simp [h.1]
    simp [wqScan, hc, lastName, ih _ h.2]

theorem wq_head (H r : Str) (h : noQ H = true) (hl : lastName false H = false) :
    wqScan (.code false) false (H ++ r) = wqScan (.code false) false r := by
  rw [wq_code H r false h, hl]

theorem rb_eq (r : Str) : "]".toList ++ r = ']' :: r := by simp
theorem cs_eq (r : Str) : ", ".toList ++ r = ',' :: ' ' :: r := by simp

/-- a quoted forward reference -/
theorem wq_ref (n r : Str) (hv : validName n = true) :
    wqScan (.code false) false (quoted n ++ r) = wqScan (.code true) false r := by
  have h := wq_lit n r true false (noQ_of_valid n hv)
  cases n with
  | nil => simp [validName] at hv
  | cons a n =>
    simp only [quoted, List.cons_append, List.append_assoc, List.singleton_append]
    simp only [List.cons_append] at h
    rw [wqScan]
    simp only [dq, beq_self_eq_true, if_true] at h ⊢
    simp [h]

theorem wqT_direct (e : Ty) : e.valid = true → ∀ r, Closer r →
    wqScan (.code false) false (render .direct e ++ r) = fin r := by
  induction e with
  | name n =>
    intro hv r hr
    simp only [Ty.valid] at hv
    simp only [render]
    rw [wq_code n r false (noQ_of_valid n hv)]
    exact scan_closer r _ _ hr
  | ref n =>
    intro hv r hr
    simp only [Ty.valid] at hv
    simp only [render]
    rw [wq_ref n r hv]
    exact scan_closer r _ _ hr
  | optional t ih =>
    intro hv r hr
    simp only [Ty.valid] at hv
    simp only [render, optional_direct, List.append_assoc, rb_eq, cs_eq, List.cons_append]
    rw [wq_head _ _ (by decide) (by decide), ih hv _ (closer_bracket r)]
    simp only [List.singleton_append, fin]
    exact scan_closer r _ _ hr
  | list t ih =>
    intro hv r hr
    simp only [Ty.valid] at hv
    simp only [render, list_direct, List.append_assoc, rb_eq, cs_eq, List.cons_append]
    rw [wq_head _ _ (by decide) (by decide), ih hv _ (closer_bracket r)]
    simp only [List.singleton_append, fin]
    exact scan_closer r _ _ hr
  | dict k v ih =>
    intro hv r hr
    simp only [Ty.valid, Bool.and_eq_true] at hv
    simp only [render, dict_direct, List.append_assoc, rb_eq, cs_eq, List.cons_append]
    rw [wq_head _ _ (by decide) (by decide), wq_code k _ _ (noQ_of_valid k hv.1)]
    rw [scan_closer _ _ _ (closer_comma _)]
    simp only [fin]
    rw [scan_closer _ _ _ (closer_space _)]
    simp only [fin]
    rw [ih hv.2 _ (closer_bracket r)]
    simp only [fin]
    exact scan_closer r _ _ hr
  | union a b iha ihb =>
    intro hv r hr
    simp only [Ty.valid, Bool.and_eq_true] at hv
    simp only [render, union2_direct, List.append_assoc, rb_eq, cs_eq, List.cons_append]
    rw [wq_head _ _ (by decide) (by decide), iha hv.1 _ (closer_comma _)]
    simp only [fin]
    rw [scan_closer _ _ _ (closer_space _)]
    simp only [fin]
    rw [ihb hv.2 _ (closer_bracket r)]
    simp only [fin]
    exact scan_closer r _ _ hr
  | iterable n =>
    intro hv r hr
    simp only [Ty.valid] at hv
    simp only [render, iterable_direct, List.append_assoc, rb_eq, cs_eq, List.cons_append]
    rw [wq_head _ _ (by decide) (by decide), wq_code n _ _ (noQ_of_valid n hv)]
    rw [scan_closer _ _ _ (closer_bracket r)]
    simp only [fin]
    exact scan_closer r _ _ hr
  | asyncIterable n =>
    intro hv r hr
    simp only [Ty.valid] at hv
    simp only [render, asyncIterable_direct, List.append_assoc, rb_eq, cs_eq, List.cons_append]
    rw [wq_head _ _ (by decide) (by decide), wq_code n _ _ (noQ_of_valid n hv)]
    rw [scan_closer _ _ _ (closer_bracket r)]
    simp only [fin]
    exact scan_closer r _ _ hr
  | asyncIterator n =>
    intro hv r hr
    simp only [Ty.valid] at hv
    simp only [render, asyncIterator_direct, List.append_assoc, rb_eq, cs_eq, List.cons_append]
    rw [wq_head _ _ (by decide) (by decide), wq_code n _ _ (noQ_of_valid n hv)]
    rw [scan_closer _ _ _ (closer_bracket r)]
    simp only [fin]
    exact scan_closer r _ _ hr

theorem wqT_root (e : Ty) : e.valid = true → ∀ r, Closer r →
    wqScan (.code false) false (render .root e ++ r) = fin r := by
  induction e with
  | name n =>
    intro hv r hr
    simp only [Ty.valid] at hv
    simp only [render]
    rw [wq_code n r false (noQ_of_valid n hv)]
    exact scan_closer r _ _ hr
  | ref n =>
    intro hv r hr
    simp only [Ty.valid] at hv
    simp only [render]
    rw [wq_ref n r hv]
    exact scan_closer r _ _ hr
  | optional t ih =>
    intro hv r hr
    simp only [Ty.valid] at hv
    simp only [render, optional_root, List.append_assoc, rb_eq, cs_eq, List.cons_append]
    rw [wq_head _ _ (by decide) (by decide), ih hv _ (closer_bracket r)]
    simp only [List.singleton_append, fin]
    exact scan_closer r _ _ hr
  | list t ih =>
    intro hv r hr
    simp only [Ty.valid] at hv
    simp only [render, list_root, List.append_assoc, rb_eq, cs_eq, List.cons_append]
    rw [wq_head _ _ (by decide) (by decide), ih hv _ (closer_bracket r)]
    simp only [List.singleton_append, fin]
    exact scan_closer r _ _ hr
  | dict k v ih =>
    intro hv r hr
    simp only [Ty.valid, Bool.and_eq_true] at hv
    simp only [render, dict_root, List.append_assoc, rb_eq, cs_eq, List.cons_append]
    rw [wq_head _ _ (by decide) (by decide), wq_code k _ _ (noQ_of_valid k hv.1)]
    rw [scan_closer _ _ _ (closer_comma _)]
    simp only [fin]
    rw [scan_closer _ _ _ (closer_space _)]
    simp only [fin]
    rw [ih hv.2 _ (closer_bracket r)]
    simp only [fin]
    exact scan_closer r _ _ hr
  | union a b iha ihb =>
    intro hv r hr
    simp only [Ty.valid, Bool.and_eq_true] at hv
    simp only [render, union2_root, List.append_assoc, rb_eq, cs_eq, List.cons_append]
    rw [wq_head _ _ (by decide) (by decide), iha hv.1 _ (closer_comma _)]
    simp only [fin]
    rw [scan_closer _ _ _ (closer_space _)]
    simp only [fin]
    rw [ihb hv.2 _ (closer_bracket r)]
    simp only [fin]
    exact scan_closer r _ _ hr
  | iterable n =>
    intro hv r hr
    simp only [Ty.valid] at hv
    simp only [render, iterable_root, List.append_assoc, rb_eq, cs_eq, List.cons_append]
    rw [wq_head _ _ (by decide) (by decide), wq_code n _ _ (noQ_of_valid n hv)]
    rw [scan_closer _ _ _ (closer_bracket r)]
    simp only [fin]
    exact scan_closer r _ _ hr
  | asyncIterable n =>
    intro hv r hr
    simp only [Ty.valid] at hv
    simp only [render, asyncIterable_root, List.append_assoc, rb_eq, cs_eq, List.cons_append]
    rw [wq_head _ _ (by decide) (by decide), wq_code n _ _ (noQ_of_valid n hv)]
    rw [scan_closer _ _ _ (closer_bracket r)]
    simp only [fin]
    exact scan_closer r _ _ hr
  | asyncIterator n =>
    intro hv r hr
    simp only [Ty.valid] at hv
    simp only [render, asyncIterator_root, List.append_assoc, rb_eq, cs_eq, List.cons_append]
    rw [wq_head _ _ (by decide) (by decide), wq_code n _ _ (noQ_of_valid n hv)]
    rw [scan_closer _ _ _ (closer_bracket r)]
    simp only [fin]
    exact scan_closer r _ _ hr

/-! ### template sites -/
theorem site_stubUnaryParam (c : Compiler) (tin tout : Str) : siteText c tin tout .stubUnaryParam = quoted tin := rfl
theorem site_stubIterParam (c : Compiler) (tin tout : Str) : siteText c tin tout .stubIterParam = quoted (stripQ (union c [asyncIterable c tin, iterable c tin])) := rfl
theorem site_stubTimeout (c : Compiler) (tin tout : Str) : siteText c tin tout .stubTimeout = optional c "float".toList := rfl
theorem site_stubDeadline (c : Compiler) (tin tout : Str) : siteText c tin tout .stubDeadline = optional c "\"Deadline\"".toList := rfl
theorem site_stubMetadata (c : Compiler) (tin tout : Str) : siteText c tin tout .stubMetadata = optional c "\"MetadataLike\"".toList := rfl
theorem site_stubReturnUnary (c : Compiler) (tin tout : Str) : siteText c tin tout .stubReturnUnary = quoted tout := rfl
theorem site_stubReturnStream (c : Compiler) (tin tout : Str) : siteText c tin tout .stubReturnStream = quoted (stripQ (asyncIterator c tout)) := rfl
theorem site_baseUnaryParam (c : Compiler) (tin tout : Str) : siteText c tin tout .baseUnaryParam = quoted tin := rfl
theorem site_baseIterParam (c : Compiler) (tin tout : Str) : siteText c tin tout .baseIterParam = asyncIterator c tin := rfl
theorem site_baseReturnUnary (c : Compiler) (tin tout : Str) : siteText c tin tout .baseReturnUnary = quoted tout := rfl
theorem site_baseReturnStream (c : Compiler) (tin tout : Str) : siteText c tin tout .baseReturnStream = asyncIterator c tout := rfl
theorem site_rpcStream (c : Compiler) (tin tout : Str) : siteText c tin tout .rpcStream = quoted ("grpclib.server.Stream[".toList ++ tin ++ ", ".toList ++ tout ++ "]".toList) := rfl
theorem site_mappingReturn (c : Compiler) (tin tout : Str) : siteText c tin tout .mappingReturn = dict c "str".toList "grpclib.const.Handler".toList := rfl

theorem noQ_wrap (H x T : Str) (hH : noQ H = true) (hx : noQ x = true) (hT : noQ T = true) :
    noQ (H ++ x ++ T) = true := by simp [noQ_append, hH, hx, hT]

theorem ne_nil_wrap (H x T : Str) (hH : H ≠ []) : H ++ x ++ T ≠ [] := by
  cases H with
  | nil => exact absurd rfl hH
  | cons a H => simp

theorem noQ_iAIble (t : Str) (h : noQ t = true) : noQ (iAIble t) = true := noQ_wrap _ _ _ (by decide) h (by decide)
theorem noQ_iAItor (t : Str) (h : noQ t = true) : noQ (iAItor t) = true := noQ_wrap _ _ _ (by decide) h (by decide)
theorem noQ_iIter (t : Str) (h : noQ t = true) : noQ (iIter t) = true := noQ_wrap _ _ _ (by decide) h (by decide)

/-- a streaming annotation of the stub: `"…"` around the stripped compiler output -/
theorem wq_stream_site (c : Compiler) (t : Str) (hv : validName t = true) :
    wellQuoted (quoted (stripQ (asyncIterator c t))) = true := by
  have q := noQ_of_valid t hv
  cases c with
  | direct =>
    rw [asyncIterator_direct]
    have hq : noQ ("AsyncIterator[".toList ++ t ++ "]".toList) = true := noQ_wrap _ _ _ (by decide) q (by decide)
    rw [stripQ_noQ _ hq]
    exact wq_quoted _ (ne_nil_wrap _ _ _ (by decide)) hq
  | root =>
    rw [asyncIterator_root]
    have hq : noQ ("typing.AsyncIterator[".toList ++ t ++ "]".toList) = true := noQ_wrap _ _ _ (by decide) q (by decide)
    rw [stripQ_noQ _ hq]
    exact wq_quoted _ (ne_nil_wrap _ _ _ (by decide)) hq
  | c310 =>
    rw [asyncIterator_310]
    have hq := noQ_iAItor t q
    have hne : iAItor t ≠ [] := ne_nil_wrap _ _ _ (by decide)
    rw [stripQ_quoted _ hne hq]
    exact wq_quoted _ hne hq

theorem wq_iter_site (c : Compiler) (t : Str) (hv : validName t = true) :
    wellQuoted (quoted (stripQ (union c [asyncIterable c t, iterable c t]))) = true := by
  have q := noQ_of_valid t hv
  cases c with
  | direct =>
    rw [asyncIterable_direct, iterable_direct, union2_direct]
    have hq : noQ ("Union[".toList ++ ("AsyncIterable[".toList ++ t ++ "]".toList) ++ ", ".toList
        ++ ("Iterable[".toList ++ t ++ "]".toList) ++ "]".toList) = true := by
      simp only [noQ_append, q, Bool.and_true, Bool.and_eq_true]
      decide
    rw [stripQ_noQ _ hq]
    exact wq_quoted _ (by simp) hq
  | root =>
    rw [asyncIterable_root, iterable_root, union2_root]
    have hq : noQ ("typing.Union[".toList ++ ("typing.AsyncIterable[".toList ++ t ++ "]".toList) ++ ", ".toList
        ++ ("typing.Iterable[".toList ++ t ++ "]".toList) ++ "]".toList) = true := by
      simp only [noQ_append, q, Bool.and_true, Bool.and_eq_true]
      decide
    rw [stripQ_noQ _ hq]
    exact wq_quoted _ (by simp) hq
  | c310 =>
    rw [asyncIterable_310, iterable_310, union2_310, fmt_quoted, fmt_quoted]
    have hq : noQ (iUnion (iAIble t) (iIter t)) = true := by
      unfold iUnion
      simp only [noQ_append, noQ_iAIble t q, noQ_iIter t q, Bool.and_true, Bool.true_and]
      decide
    have hne : iUnion (iAIble t) (iIter t) ≠ [] := by unfold iUnion iAIble; simp
    rw [stripQ_quoted _ hne hq]
    exact wq_quoted _ hne hq

theorem wq_base_stream_site (c : Compiler) (t : Str) (hv : validName t = true) :
    wellQuoted (asyncIterator c t) = true := by
  have q := noQ_of_valid t hv
  cases c with
  | direct =>
    rw [asyncIterator_direct]
    exact wq_plain' _ (ne_nil_wrap _ _ _ (by decide)) (noQ_wrap _ _ _ (by decide) q (by decide))
  | root =>
    rw [asyncIterator_root]
    exact wq_plain' _ (ne_nil_wrap _ _ _ (by decide)) (noQ_wrap _ _ _ (by decide) q (by decide))
  | c310 =>
    rw [asyncIterator_310]
    exact wq_quoted _ (ne_nil_wrap _ _ _ (by decide)) (noQ_iAItor t q)

theorem wq_sites (c : Compiler) (st : Site) (tin tout : Str) (h1 : validName tin = true) (h2 : validName tout = true) :
    wellQuoted (siteText c tin tout st) = true := by
  have q1 := noQ_of_valid tin h1
  have q2 := noQ_of_valid tout h2
  have n1 := ne_nil_of_valid tin h1
  have n2 := ne_nil_of_valid tout h2
  cases st with
  | stubUnaryParam => rw [site_stubUnaryParam]; exact wq_quoted _ n1 q1
  | stubIterParam => rw [site_stubIterParam]; exact wq_iter_site c tin h1
  | stubTimeout => rw [site_stubTimeout]; cases c <;> decide
  | stubDeadline => rw [site_stubDeadline]; cases c <;> decide
  | stubMetadata => rw [site_stubMetadata]; cases c <;> decide
  | stubReturnUnary => rw [site_stubReturnUnary]; exact wq_quoted _ n2 q2
  | stubReturnStream => rw [site_stubReturnStream]; exact wq_stream_site c tout h2
  | baseUnaryParam => rw [site_baseUnaryParam]; exact wq_quoted _ n1 q1
  | baseIterParam => rw [site_baseIterParam]; exact wq_base_stream_site c tin h1
  | baseReturnUnary => rw [site_baseReturnUnary]; exact wq_quoted _ n2 q2
  | baseReturnStream => rw [site_baseReturnStream]; exact wq_base_stream_site c tout h2
  | rpcStream =>
    rw [site_rpcStream]
    apply wq_quoted
    · simp
    · simp only [noQ_append, q1, q2, Bool.and_true, Bool.true_and, Bool.and_eq_true]
      decide
  | mappingReturn => rw [site_mappingReturn]; cases c <;> decide

/-! ### field annotations: every rendered type expression is well quoted -/

theorem noQ_inner310 (e : Ty) (hv : e.valid = true) : noQ (inner310 e) = true ∧ inner310 e ≠ [] := by
  induction e with
  | name n => simp only [Ty.valid] at hv; exact ⟨noQ_of_valid n hv, ne_nil_of_valid n hv⟩
  | ref n => simp only [Ty.valid] at hv; exact ⟨noQ_of_valid n hv, ne_nil_of_valid n hv⟩
  | optional t ih =>
    simp only [Ty.valid] at hv
    simp only [inner310]; unfold iOpt
    refine ⟨?_, by simp⟩
    rw [noQ_append, (ih hv).1]; decide
  | list t ih =>
    simp only [Ty.valid] at hv
    simp only [inner310]; unfold iList
    exact ⟨noQ_wrap _ _ _ (by decide) (ih hv).1 (by decide), ne_nil_wrap _ _ _ (by decide)⟩
  | dict k v ih =>
    simp only [Ty.valid, Bool.and_eq_true] at hv
    simp only [inner310]; unfold iDict
    refine ⟨?_, by simp⟩
    simp only [noQ_append, noQ_of_valid k hv.1, (ih hv.2).1, Bool.and_true, Bool.true_and, Bool.and_eq_true]
    decide
  | union a b iha ihb =>
    simp only [Ty.valid, Bool.and_eq_true] at hv
    simp only [inner310]; unfold iUnion
    refine ⟨?_, by simp⟩
    simp only [noQ_append, (iha hv.1).1, (ihb hv.2).1, Bool.and_true, Bool.true_and]
    decide
  | iterable n =>
    simp only [Ty.valid] at hv
    simp only [inner310]
    exact ⟨noQ_iIter n (noQ_of_valid n hv), ne_nil_wrap _ _ _ (by decide)⟩
  | asyncIterable n =>
    simp only [Ty.valid] at hv
    simp only [inner310]
    exact ⟨noQ_iAIble n (noQ_of_valid n hv), ne_nil_wrap _ _ _ (by decide)⟩
  | asyncIterator n =>
    simp only [Ty.valid] at hv
    simp only [inner310]
    exact ⟨noQ_iAItor n (noQ_of_valid n hv), ne_nil_wrap _ _ _ (by decide)⟩

theorem wqScan_nonempty (s : Str) (h : wqScan (.code false) false s = true) (hne : s ≠ []) : wellQuoted s = true := by
  unfold wellQuoted
  cases s with
  | nil => exact absurd rfl hne
  | cons a s => simp [h]

theorem render_ne_nil (c : Compiler) (e : Ty) (hv : e.valid = true) : render c e ≠ [] := by
  cases c with
  | c310 =>
    have h := (render310 e hv).1
    have hi := (noQ_inner310 e hv).2
    rw [h]
    split
    · exact hi
    · simp [quoted]
  | direct =>
    cases e with
    | name n => simp only [Ty.valid] at hv; simpa [render] using ne_nil_of_valid n hv
    | ref n => simp [render, quoted]
    | optional t => simp [render, optional_direct]
    | list t => simp [render, list_direct]
    | dict k v => simp [render, dict_direct]
    | union a b => simp [render, union2_direct]
    | iterable n => simp [render, iterable_direct]
    | asyncIterable n => simp [render, asyncIterable_direct]
    | asyncIterator n => simp [render, asyncIterator_direct]
  | root =>
    cases e with
    | name n => simp only [Ty.valid] at hv; simpa [render] using ne_nil_of_valid n hv
    | ref n => simp [render, quoted]
    | optional t => simp [render, optional_root]
    | list t => simp [render, list_root]
    | dict k v => simp [render, dict_root]
    | union a b => simp [render, union2_root]
    | iterable n => simp [render, iterable_root]
    | asyncIterable n => simp [render, asyncIterable_root]
    | asyncIterator n => simp [render, asyncIterator_root]

theorem wq_render (c : Compiler) (e : Ty) (hv : e.valid = true) : wellQuoted (render c e) = true := by
  cases c with
  | direct =>
    have h := wqT_direct e hv [] closer_nil
    simp only [List.append_nil, fin] at h
    exact wqScan_nonempty _ h (render_ne_nil _ e hv)
  | root =>
    have h := wqT_root e hv [] closer_nil
    simp only [List.append_nil, fin] at h
    exact wqScan_nonempty _ h (render_ne_nil _ e hv)
  | c310 =>
    have h := (render310 e hv).1
    have hi := noQ_inner310 e hv
    rw [h]
    split
    · exact wq_plain' _ hi.2 hi.1
    · exact wq_quoted _ hi.2 hi.1

end Bp.Typing
