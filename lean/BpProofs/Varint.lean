import BpModel.Varint
import Mathlib.Tactic.Ring
/-
  Helper lemmas about the varint model (property statements live in Props/C16.lean).
-/
namespace Bp
open Spec

theorem encNatAux_fuel2 (f g n : Nat) (hf : n ≤ f) (hg : n ≤ g) : encNatAux f n = encNatAux g n := by
  induction f generalizing g n with
  | zero =>
    have : n = 0 := by omega
    subst this
    cases g <;> simp [encNatAux]
  | succ f ih =>
    cases g with
    | zero =>
      have : n = 0 := by omega
      subst this; simp [encNatAux]
    | succ g =>
      simp only [encNatAux]
      split
      · rfl
      · rw [ih g (n / 128) (by omega) (by omega)]

theorem encNatAux_fuel (f n : Nat) (h : n ≤ f) : encNatAux f n = encNatAux n n :=
  encNatAux_fuel2 f n n h (Nat.le_refl n)

theorem encNat_lt (n : Nat) (h : n < 128) : encNat n = [n] := by
  unfold encNat
  cases n with
  | zero => rfl
  | succ m => simp [encNatAux, h]

theorem encNat_ge (n : Nat) (h : ¬ n < 128) : encNat n = (128 + n % 128) :: encNat (n / 128) := by
  unfold encNat
  cases n with
  | zero => omega
  | succ m =>
    simp only [encNatAux, h, if_false]
    rw [encNatAux_fuel m ((m + 1) / 128) (by omega)]

theorem encNat_ne_nil (n : Nat) : encNat n ≠ [] := by
  by_cases h : n < 128
  · simp [encNat_lt n h]
  · simp [encNat_ge n h]

theorem encNat_wf (n : Nat) : WfBytes (encNat n) := by
  induction n using Nat.strongRecOn with
  | _ n ih =>
    by_cases h : n < 128
    · rw [encNat_lt n h]; intro b hb; simp at hb; omega
    · rw [encNat_ge n h]; intro b hb
      simp at hb
      rcases hb with hb | hb
      · omega
      · exact ih (n / 128) (by omega) b hb

theorem encNat_value (n : Nat) : varintValue (encNat n) = n := by
  induction n using Nat.strongRecOn with
  | _ n ih =>
    by_cases h : n < 128
    · rw [encNat_lt n h]; simp [varintValue]; omega
    · rw [encNat_ge n h]; simp only [varintValue]
      rw [ih (n / 128) (by omega)]; omega

theorem varintShape_cons_cons (a b : Nat) (bs : Bytes) :
    varintShape (a :: b :: bs) = ((128 ≤ a && a < 256) && varintShape (b :: bs)) := rfl

theorem encNat_shape (n : Nat) : varintShape (encNat n) = true := by
  induction n using Nat.strongRecOn with
  | _ n ih =>
    by_cases h : n < 128
    · rw [encNat_lt n h]; simp [varintShape, h]
    · rw [encNat_ge n h]
      have := ih (n / 128) (by omega)
      cases hr : encNat (n / 128) with
      | nil => exact absurd hr (encNat_ne_nil _)
      | cons b bs =>
        rw [varintShape_cons_cons, ← hr, this]
        simp; omega

/-- the last byte of a multi-byte canonical encoding is non-zero -/
theorem encNat_getLast (n : Nat) : (encNat n).length = 1 ∨ (encNat n).getLast? ≠ some 0 := by
  induction n using Nat.strongRecOn with
  | _ n ih =>
    by_cases h : n < 128
    · left; rw [encNat_lt n h]; rfl
    · right
      rw [encNat_ge n h]
      rcases ih (n / 128) (by omega) with h1 | h1
      · -- single byte tail: n/128 < 128 and non-zero
        by_cases h2 : n / 128 < 128
        · rw [encNat_lt _ h2]; simp [List.getLast?]; omega
        · rw [encNat_ge _ h2] at h1; simp at h1; exact absurd h1 (encNat_ne_nil _)
      · cases hr : encNat (n / 128) with
        | nil => exact absurd hr (encNat_ne_nil _)
        | cons b bs =>
          rw [hr] at h1
          simpa [List.getLast?_cons_cons] using h1

theorem encNat_canonical (n : Nat) : varintCanonical (encNat n) = true := by
  unfold varintCanonical
  rw [encNat_shape]
  rcases encNat_getLast n with h | h
  · simp [h]
  · simp [h]

/-- length bracket: 128^k ≤ n < 128^(k+1) → k+1 bytes -/
theorem encNat_length (k n : Nat) (hlo : k = 0 ∨ 128 ^ k ≤ n) (hhi : n < 128 ^ (k + 1)) :
    (encNat n).length = k + 1 := by
  induction k generalizing n with
  | zero => simp at hhi; rw [encNat_lt n hhi]; rfl
  | succ k ih =>
    have hge : ¬ n < 128 := by
      rcases hlo with h | h
      · omega
      · have : 128 ^ 1 ≤ 128 ^ (k + 1) := Nat.pow_le_pow_right (by omega) (by omega)
        omega
    rw [encNat_ge n hge]
    simp only [List.length_cons]
    rw [ih (n / 128)]
    · rcases hlo with h | h
      · omega
      · by_cases hk : k = 0
        · left; exact hk
        · right
          rw [Nat.pow_succ] at h
          exact (Nat.le_div_iff_mul_le (by omega)).mpr h
    · rw [Nat.pow_succ] at hhi
      exact (Nat.div_lt_iff_lt_mul (by omega)).mpr hhi

theorem encNat_length_le10 (n : Nat) (h : n < 2 ^ 64) : (encNat n).length ≤ 10 := by
  -- find k by cases on the bracket
  have key : ∀ k, k ≤ 9 → n < 128 ^ (k + 1) → (encNat n).length ≤ k + 1 := by
    intro k
    induction k with
    | zero => intro _ h0; rw [encNat_length 0 n (Or.inl rfl) h0]
    | succ k ih =>
      intro hk hlt
      by_cases hlo : 128 ^ (k + 1) ≤ n
      · rw [encNat_length (k + 1) n (Or.inr hlo) hlt]
      · have := ih (by omega) (by omega); omega
  have : n < 128 ^ 10 := by
    have : (2:Nat) ^ 64 ≤ 128 ^ 10 := by decide
    omega
  exact key 9 (by omega) this

theorem encNat_length_10 (n : Nat) (hlo : 2 ^ 63 ≤ n) (hhi : n < 2 ^ 64) :
    (encNat n).length = 10 := by
  apply encNat_length 9 n
  · right
    have : (128:Nat) ^ 9 = 2 ^ 63 := by decide
    omega
  · have : (2:Nat) ^ 64 ≤ 128 ^ 10 := by decide
    omega

/-! ### decoder -/

theorem loadAux_shape (bs rest : Bytes) (shift res k : Nat)
    (hs : varintShape bs = true) (hlen : shift + 7 * (bs.length - 1) < 64) :
    loadVarintAux shift res k (bs ++ rest)
      = .ok (res + varintValue bs * 2 ^ shift, k + bs.length) := by
  induction bs generalizing shift res k with
  | nil => simp [varintShape] at hs
  | cons b bs ih =>
    cases bs with
    | nil =>
      simp [varintShape] at hs
      simp at hlen
      simp [loadVarintAux, varintValue, hs, Nat.mod_eq_of_lt hs]
      omega
    | cons c cs =>
      rw [varintShape_cons_cons] at hs
      simp at hs
      obtain ⟨⟨hb1, hb2⟩, hs'⟩ := hs
      simp only [List.length_cons] at hlen
      have hsh : ¬ shift ≥ 64 := by omega
      have hb : ¬ b < 128 := by omega
      have := ih (shift + 7) (res + b % 128 * 2 ^ shift) (k + 1) hs'
        (by simp only [List.length_cons]; omega)
      show loadVarintAux shift res k (b :: ((c :: cs) ++ rest)) = _
      rw [loadVarintAux]
      simp only [hsh, hb, if_false]
      rw [this]
      simp only [varintValue, List.length_cons]
      congr 1
      simp only [Prod.mk.injEq]
      constructor
      · rw [Nat.pow_add]; ring
      · omega

/-- every well-shaped varint of at most 10 bytes (minimal or padded) is decoded to the
    value it denotes (its low 64 bits), consuming exactly its own bytes -/
theorem loadVarint_shape (bs rest : Bytes) (hs : varintShape bs = true) (hlen : bs.length ≤ 10) :
    loadVarint (bs ++ rest) = .ok (varintValue bs % 2 ^ 64, bs.length) := by
  unfold loadVarint
  rw [loadAux_shape bs rest 0 0 0 hs (by omega)]
  simp

theorem loadVarint_encNat (n : Nat) (rest : Bytes) (h : n < 2 ^ 64) :
    loadVarint (encNat n ++ rest) = .ok (n, (encNat n).length) := by
  rw [loadVarint_shape _ _ (encNat_shape n) (encNat_length_le10 n h), encNat_value,
    Nat.mod_eq_of_lt h]

/-- classification of the decoder's result on an arbitrary (well-formed) byte list,
    `j` = number of bytes already consumed -/
theorem loadAux_total (bs : Bytes) (hw : WfBytes bs) (j res k : Nat) (hj : j ≤ 10) :
    (∃ m, loadVarintAux (7 * j) res k bs
            = .ok (res + varintValue (bs.take m) * 2 ^ (7 * j), k + m)
          ∧ 1 ≤ m ∧ j + m ≤ 10 ∧ m ≤ bs.length ∧ varintShape (bs.take m) = true)
    ∨ (loadVarintAux (7 * j) res k bs = .error .eof ∧ j + bs.length < 10 ∧ ∀ b ∈ bs, 128 ≤ b)
    ∨ (loadVarintAux (7 * j) res k bs = .error .value ∧ 10 ≤ j + bs.length
        ∧ ∀ b ∈ bs.take (10 - j), 128 ≤ b) := by
  induction bs generalizing j res k with
  | nil =>
    by_cases h : 7 * j ≥ 64
    · right; right; simp [loadVarintAux, h]; omega
    · right; left; simp [loadVarintAux, h]; omega
  | cons b bs ih =>
    have hb256 : b < 256 := hw b (by simp)
    have hw' : WfBytes bs := fun x hx => hw x (by simp [hx])
    by_cases h : 7 * j ≥ 64
    · right; right
      have : 10 - j = 0 := by omega
      simp [loadVarintAux, h, this]; omega
    · by_cases hb : b < 128
      · left; refine ⟨1, ?_⟩
        simp [loadVarintAux, h, hb, varintValue, varintShape]; omega
      · have hj' : j + 1 ≤ 10 := by omega
        have e : 7 * j + 7 = 7 * (j + 1) := by omega
        rcases ih hw' (j + 1) (res + b % 128 * 2 ^ (7 * j)) (k + 1) hj' with
          ⟨m, h1, h2, h3, h4, h5⟩ | ⟨h1, h2, h3⟩ | ⟨h1, h2, h3⟩
        · left; refine ⟨m + 1, ?_⟩
          rw [loadVarintAux]; simp only [h, hb, if_false]
          rw [e, h1]
          refine ⟨?_, by omega, by omega, by simp; omega, ?_⟩
          · simp only [List.take_succ_cons, varintValue]
            congr 1; simp only [Prod.mk.injEq]
            constructor
            · have : (2:Nat) ^ (7 * (j + 1)) = 128 * 2 ^ (7 * j) := by
                rw [show 7 * (j + 1) = 7 + 7 * j by omega, Nat.pow_add]
              rw [this]; ring
            · omega
          · simp only [List.take_succ_cons]
            cases ht : bs.take m with
            | nil =>
              have : m = 0 ∨ bs = [] := by
                simpa [List.take_eq_nil_iff] using ht
              rcases this with h0 | h0
              · omega
              · subst h0; simp at h4; omega
            | cons c cs =>
              rw [varintShape_cons_cons, ← ht, h5]; simp; omega
        · right; left
          rw [loadVarintAux]; simp only [h, hb, if_false]
          rw [e, h1]
          refine ⟨rfl, by simp; omega, ?_⟩
          intro x hx; simp at hx
          rcases hx with hx | hx
          · omega
          · exact h3 x hx
        · right; right
          rw [loadVarintAux]; simp only [h, hb, if_false]
          rw [e, h1]
          refine ⟨rfl, by simp; omega, ?_⟩
          have : 10 - j = (10 - (j + 1)) + 1 := by omega
          rw [this, List.take_succ_cons]
          intro x hx; simp at hx
          rcases hx with hx | hx
          · omega
          · exact h3 x (by simpa using hx)

/-! ### size_varint -/

theorem bitLenAux_fuel2 (f g n : Nat) (hf : n ≤ f) (hg : n ≤ g) : bitLenAux f n = bitLenAux g n := by
  induction f generalizing g n with
  | zero =>
    have : n = 0 := by omega
    subst this
    cases g <;> simp [bitLenAux]
  | succ f ih =>
    cases g with
    | zero =>
      have : n = 0 := by omega
      subst this; simp [bitLenAux]
    | succ g =>
      simp only [bitLenAux]
      split
      · rfl
      · rw [ih g (n / 2) (by omega) (by omega)]

theorem bitLenAux_fuel (f n : Nat) (h : n ≤ f) : bitLenAux f n = bitLenAux n n :=
  bitLenAux_fuel2 f n n h (Nat.le_refl n)

theorem bitLen_zero : bitLen 0 = 0 := rfl
theorem bitLen_pos (n : Nat) (h : n ≠ 0) : bitLen n = 1 + bitLen (n / 2) := by
  unfold bitLen
  cases n with
  | zero => omega
  | succ m =>
    simp only [bitLenAux]
    rw [bitLenAux_fuel m ((m + 1) / 2) (by omega)]
    simp

theorem bitLen_le_iff (n k : Nat) : bitLen n ≤ k ↔ n < 2 ^ k := by
  induction k generalizing n with
  | zero =>
    by_cases h : n = 0
    · subst h; simp [bitLen_zero]
    · rw [bitLen_pos n h]; simp; omega
  | succ k ih =>
    by_cases h : n = 0
    · subst h; simp [bitLen_zero]
    · rw [bitLen_pos n h]
      have := ih (n / 2)
      rw [Nat.pow_succ]
      constructor
      · intro hh
        have : n / 2 < 2 ^ k := this.mp (by omega)
        omega
      · intro hh
        have : bitLen (n / 2) ≤ k := this.mpr (by omega)
        omega

theorem size_encNat (n : Nat) (h : n ≠ 0) : (bitLen n + 6) / 7 = (encNat n).length := by
  -- bracket n between 128^k and 128^(k+1) using bitLen
  have hb : ∀ k, (k = 0 ∨ 128 ^ k ≤ n) → n < 128 ^ (k + 1) → (bitLen n + 6) / 7 = k + 1 := by
    intro k hlo hhi
    have e1 : (128:Nat) ^ (k + 1) = 2 ^ (7 * (k + 1)) := by
      rw [Nat.pow_mul]
    have e0 : (128:Nat) ^ k = 2 ^ (7 * k) := by
      rw [Nat.pow_mul]
    have up : bitLen n ≤ 7 * (k + 1) := (bitLen_le_iff n _).mpr (by omega)
    have lo : 7 * k < bitLen n := by
      rcases hlo with h0 | h0
      · subst h0
        have : ¬ bitLen n ≤ 0 := by
          rw [bitLen_le_iff]; simp; omega
        omega
      · have : ¬ bitLen n ≤ 7 * k := by
          rw [bitLen_le_iff]; omega
        omega
    omega
  -- find the bracket
  have ex : ∃ k, (k = 0 ∨ 128 ^ k ≤ n) ∧ n < 128 ^ (k + 1) := by
    have : ∀ m, n < 128 ^ (m + 1) → ∃ k, (k = 0 ∨ 128 ^ k ≤ n) ∧ n < 128 ^ (k + 1) := by
      intro m
      induction m with
      | zero => intro hm; exact ⟨0, Or.inl rfl, hm⟩
      | succ m ihm =>
        intro hm
        by_cases hlo : 128 ^ (m + 1) ≤ n
        · exact ⟨m + 1, Or.inr hlo, hm⟩
        · exact ihm (by omega)
    apply this n
    have : n < 2 ^ n := Nat.lt_two_pow_self
    have : (2:Nat) ^ n ≤ 128 ^ n := Nat.pow_le_pow_left (by omega) n
    have : (128:Nat) ^ n ≤ 128 ^ (n + 1) := Nat.pow_le_pow_right (by omega) (by omega)
    omega
  obtain ⟨k, hlo, hhi⟩ := ex
  rw [hb k hlo hhi, encNat_length k n hlo hhi]

/-! ### zig-zag and sign recovery -/

theorem unzig_zig (v : Int) : unzig (zig v).toNat = v := by
  unfold zig unzig
  split
  · have : (2 * v).toNat % 2 = 0 := by omega
    simp [this]; omega
  · have : (-(2 * v) - 1).toNat % 2 = 1 := by omega
    simp [this]; omega

theorem zig_nonneg (v : Int) : 0 ≤ zig v := by unfold zig; split <;> omega

theorem zig_lt (bits : Nat) (v : Int) (hlo : -(2 ^ (bits - 1) : Nat) ≤ v) (hhi : v < (2 ^ (bits - 1) : Nat))
    (hb : 1 ≤ bits) : zig v < (2 ^ bits : Nat) := by
  have : 2 ^ bits = 2 * 2 ^ (bits - 1) := by
    rw [← Nat.pow_succ']; congr 1; omega
  unfold zig; split <;> omega

/-- the unsigned 64-bit pattern `dump_varint` writes for an integer -/
def asU64 (v : Int) : Nat := if v < 0 then (v + two64).toNat else v.toNat

theorem signRecover32 (v : Int) (hlo : -2147483648 ≤ v) (hhi : v < 2147483648) :
    signRecover 32 (asU64 v) = v := by
  unfold signRecover asU64 two64
  split <;> simp <;> omega

theorem signRecover64 (v : Int) (hlo : -9223372036854775808 ≤ v) (hhi : v < 9223372036854775808) :
    signRecover 64 (asU64 v) = v := by
  unfold signRecover asU64 two64
  split <;> simp <;> omega

/-! ### fixed width -/

theorem packLE_length (n v : Nat) : (packLE n v).length = n := by
  induction n generalizing v with
  | zero => rfl
  | succ n ih => simp [packLE, ih]

theorem packLE_wf (n v : Nat) : WfBytes (packLE n v) := by
  induction n generalizing v with
  | zero => intro b hb; simp [packLE] at hb
  | succ n ih =>
    intro b hb; simp [packLE] at hb
    rcases hb with hb | hb
    · omega
    · exact ih _ b hb

theorem unpackLE_packLE (n v : Nat) (h : v < 256 ^ n) : unpackLE (packLE n v) = v := by
  induction n generalizing v with
  | zero => simp at h; simp [packLE, unpackLE, h]
  | succ n ih =>
    simp only [packLE, unpackLE]
    rw [ih (v / 256)]
    · omega
    · rw [Nat.pow_succ] at h
      exact (Nat.div_lt_iff_lt_mul (by omega)).mpr h

theorem packLE_unpackLE (bs : Bytes) (hw : WfBytes bs) : packLE bs.length (unpackLE bs) = bs := by
  induction bs with
  | nil => rfl
  | cons b bs ih =>
    have hb : b < 256 := hw b (by simp)
    have hw' : WfBytes bs := fun x hx => hw x (by simp [hx])
    simp only [List.length_cons, packLE, unpackLE]
    have e1 : (b + 256 * unpackLE bs) % 256 = b := by omega
    have e2 : (b + 256 * unpackLE bs) / 256 = unpackLE bs := by omega
    rw [e1, e2, ih hw']

theorem unpackLE_lt (bs : Bytes) (hw : WfBytes bs) : unpackLE bs < 256 ^ bs.length := by
  induction bs with
  | nil => simp [unpackLE]
  | cons b bs ih =>
    have hb : b < 256 := hw b (by simp)
    have hw' : WfBytes bs := fun x hx => hw x (by simp [hx])
    have := ih hw'
    simp only [List.length_cons, unpackLE, Nat.pow_succ]
    omega

theorem toSigned_ofSigned (bits : Nat) (hb : 1 ≤ bits) (v : Int)
    (hlo : -(2 ^ (bits - 1) : Nat) ≤ v) (hhi : v < (2 ^ (bits - 1) : Nat)) :
    toSigned bits (ofSigned bits v) = v := by
  have e : 2 ^ bits = 2 * 2 ^ (bits - 1) := by
    rw [← Nat.pow_succ']; congr 1; omega
  unfold toSigned ofSigned
  generalize 2 ^ (bits - 1) = H at *
  rw [e]
  by_cases hv : 0 ≤ v
  · have : v % ((2 * H : Nat) : Int) = v := Int.emod_eq_of_lt hv (by omega)
    rw [this]
    have : v.toNat < H := by omega
    simp [this]; omega
  · have : v % ((2 * H : Nat) : Int) = v + (2 * H : Nat) := by
      have h1 : (v + ((2 * H : Nat) : Int)) % ((2 * H : Nat) : Int) = v % ((2 * H : Nat) : Int) := by
        simp
      rw [← h1]
      exact Int.emod_eq_of_lt (by omega) (by omega)
    rw [this]
    have : ¬ (v + ((2 * H : Nat) : Int)).toNat < H := by omega
    simp [this]; omega

end Bp
