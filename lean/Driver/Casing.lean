import Driver.Tok
/- line-protocol handlers of this area; see docs/AGENT_GUIDE.md -/
namespace Drv

structure CasingSt where
  dummy : Unit := ()

def handleCasing (st : CasingSt) (_toks : List String) : Option (CasingSt × String) :=
  let _ := st
  none

end Drv
