import Driver.Tok
import BpModel.Casing
import BpModel.Naming
import BpModel.Importing
/- line-protocol handlers of the area "Casing" (C19: name mapping, C13: type references).
   Strings travel as `=<text>` (so that the empty string is the token `=`); they never
   contain spaces. -/
namespace Drv
open Bp.Casing Bp.Naming Bp.Importing

structure CasingSt where
  dummy : Unit := ()

def strArg (t : String) : Option (List Char) :=
  match t.toList with
  | '=' :: r => some r
  | _ => none

def strOut (s : List Char) : String := "=" ++ String.ofList s

def boolOut (b : Bool) : String := if b then "1" else "0"

def handleCasing (st : CasingSt) (toks : List String) : Option (CasingSt × String) :=
  match toks with
  | ["SNAKE", s] => (strArg s).map fun s => (st, strOut (snake s))
  | ["PASCAL", s] => (strArg s).map fun s => (st, strOut (pascal s))
  | ["CAMEL", s] => (strArg s).map fun s => (st, strOut (camel s))
  | ["SANITIZE", s] => (strArg s).map fun s => (st, strOut (sanitize s))
  | ["SAFE", s] => (strArg s).map fun s => (st, strOut (safeSnake s))
  | ["CLS", s] => (strArg s).map fun s => (st, strOut (pythonizeClassName s))
  | ["FLD", s] => (strArg s).map fun s => (st, strOut (pythonizeFieldName s))
  | ["MTH", s] => (strArg s).map fun s => (st, strOut (pythonizeMethodName s))
  | ["MEMBER", s, e] => do
    let s ← strArg s
    let e ← strArg e
    some (st, strOut (pythonizeEnumMemberName s e))
  | ["TOKENS", s] => (strArg s).map fun s => (st, String.intercalate " " ((tokens s).map strOut))
  -- the keys to_dict emits for the Python field `f` and the fields from_dict maps them to
  | ["KEYS", f] => (strArg f).map fun f =>
      (st, String.intercalate " " [strOut (keyCamel f), strOut (fieldOfKey (keyCamel f)),
                                   strOut (keySnake f), strOut (fieldOfKey (keySnake f))])
  -- guards of the partial theorems of Props/C19.lean
  | ["WF", "alpha2", s] => (strArg s).map fun s => (st, boolOut (allWordsAlpha2 s))
  | ["WF", "classguard", s] => (strArg s).map fun s => (st, boolOut (classNameGuard s))
  -- C13
  | ["PARSE", s] => (strArg s).map fun s =>
      let (p, n) := parseSourceTypeName s
      (st, strOut p ++ " " ++ strOut n)
  | ["TYPEREF", pkg, src, unwrap, pyd] => do
    let pkg ← strArg pkg
    let src ← strArg src
    let r := getTypeReference pkg src (unwrap == "1") (pyd == "1")
    some (st, String.ofList r.ref.render ++ "|" ++ String.ofList r.imp.render)
  | ["RESOLVE", pkg, src, unwrap, pyd] => do
    let pkg ← strArg pkg
    let src ← strArg src
    let cur := splitPkg pkg
    let r := getTypeReference pkg src (unwrap == "1") (pyd == "1")
    let b := r.imp.bind cur
    let bn := match b with
      | some (a, _) => strOut a
      | none => "-"
    let d := match denote cur b r.ref with
      | some (.gen p, c) => "gen " ++ strOut (dotted p) ++ " " ++ strOut c
      | some (.abs p, c) => "abs " ++ strOut (dotted p) ++ " " ++ strOut c
      | none => "none"
    some (st, bn ++ " " ++ d)
  | ["CLASSOF", ty] => (strArg ty).map fun ty => (st, strOut (classOf (splitOn '.' ty)))
  | ["WF", "pkgok", p] => (strArg p).map fun p => (st, boolOut (pkgOk (splitPkg p)))
  | ["WF", "typeok", p] => (strArg p).map fun p => (st, boolOut (typeOk (splitPkg p)))
  | ["WF", "simplepkg", p] => (strArg p).map fun p => (st, boolOut (simplePkg (splitPkg p)))
  | _ => none

end Drv
