import Driver.Tok
/- line-protocol handlers of this area; see docs/AGENT_GUIDE.md -/
namespace Drv

structure ChanSt where
  dummy : Unit := ()

def handleChan (st : ChanSt) (_toks : List String) : Option (ChanSt × String) :=
  let _ := st
  none

end Drv
