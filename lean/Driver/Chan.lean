import Driver.Tok
import BpModel.Chan
/- line-protocol handler of the AsyncChannel model (C12).

   CHAN <maxsize> <nprogs> <prog>* ; <choice>*
     prog   ::= S e|f <n> 0|1  |  R <flavour> 0|1  |  C  |  X <target>
     choice ::= t<i> (run task i)  |  T<i> (fire the wait_for timer of task i)
   reply: one token per step `<runnable-before>><events>` and a last token `<runnable>`, then
          ` # <state dump>`.  `BAD` as events = the choice is not enabled in the model. -/
namespace Drv
open Bp.Chan

structure ChanSt where
  dummy : Unit := ()

def parseProgs : Nat → List String → List Prog → Option (List Prog × List String)
  | 0, toks, acc => some (acc.reverse, toks)
  | n + 1, "S" :: m :: k :: c :: rest, acc =>
    match parseNat k with
    | some k => parseProgs n rest (.sender (m == "f") k (c == "1") :: acc)
    | none => none
  | n + 1, "R" :: _ :: tm :: rest, acc => parseProgs n rest (.receiver (tm == "1") :: acc)
  | n + 1, "C" :: rest, acc => parseProgs n rest (.closer :: acc)
  | n + 1, "X" :: tg :: rest, acc =>
    match parseNat tg with
    | some tg => parseProgs n rest (.canceller tg :: acc)
    | none => none
  | _, _, _ => none

def parseChoice (s : String) : Option Choice :=
  if s.startsWith "t" then (parseNat (s.drop 1).toString).map Choice.run
  else if s.startsWith "T" then (parseNat (s.drop 1).toString).map Choice.fire
  else none

def labelsOf (s : Sys) : String :=
  let ids := List.range s.tasks.length
  let ls := (ids.filter (runnable s)).map (fun i => s!"t{i}") ++ (ids.filter (timerLive s)).map (fun i => s!"T{i}")
  if ls.isEmpty then "-" else String.intercalate "," ls

def showItem : Item → String
  | .data a b => s!"{a}.{b}"
  | .flush => "F"

def showOutcome : Outcome → String
  | .running => "running" | .ok => "ok" | .chanClosed => "chanClosed" | .cancelled => "cancelled"
  | .timeout => "timeout" | .valueError => "valueError"

def isDone (s : Sys) (t : Nat) : Bool := waitOf s t == some .done

def eventsOf (s s' : Sys) (c : Choice) : String :=
  let recv := (s'.recvLog.drop s.recvLog.length).map fun (t, it) => s!"r{t}:{showItem it}"
  let fin := match c with
    | .run t =>
      if !isDone s t && isDone s' t then
        match s'.tasks[t]? with
        | some x => [s!"d{t}:{showOutcome x.out}"]
        | none => []
      else []
    | .fire _ => []
  let ev := recv ++ fin
  if ev.isEmpty then "-" else String.intercalate "," ev

def showFut : Fut → String
  | .pending => "p" | .woken => "w" | .cancelled => "c"

def showWait : Wait → String
  | .ready => "r" | .blocked g f => (if g then "g" else "p") ++ showFut f | .done => "D"

def showCode : Code → String
  | .sender m nx r cl => s!"S{match m with | .each => "e" | .fromStart => "f" | .fromRunning => "F"}{nx}.{r}{if cl then "c" else ""}"
  | .receiver tm => if tm then "Rt" else "R"
  | .closer => "C"
  | .canceller tg => s!"X{tg}"
  | .flusher none => "f?"
  | .flusher (some r) => s!"f{r}"

def showTask (x : Task) : String :=
  showCode x.code ++ ":" ++ showWait x.wait ++ (if x.mustCancel then "!" else "") ++
    (if x.cancelReq then "c" else "") ++ (if x.timedOut then "t" else "") ++
    (if x.wait == .done then showOutcome x.out else "")

def commaNat (l : List Nat) : String := String.intercalate "," (l.map toString)

def dump (s : Sys) : String :=
  String.intercalate "|" [
    String.intercalate "," (s.queue.map showItem), commaNat s.getters, commaNat s.putters,
    toString s.unfinished, (if s.closed then "1" else "0"), (if s.flushed then "1" else "0"),
    toString s.waiting, String.intercalate ";" (s.tasks.map showTask),
    String.intercalate "," (s.recvLog.map fun (t, it) => s!"{t}:{showItem it}"),
    String.intercalate "," (s.putLog.map showItem),
    (match s.preClose with | none => "-" | some n => toString n),
    (if quiescent s then "q" else "a")]

partial def runChoices (s : Sys) (cs : List String) (acc : List String) : List String × Sys :=
  match cs with
  | [] => ((labelsOf s :: acc).reverse, s)
  | c :: rest =>
    match parseChoice c with
    | none => ((s!"{labelsOf s}>BAD" :: acc).reverse, s)
    | some ch =>
      if !enabled s ch then ((s!"{labelsOf s}>BAD" :: acc).reverse, s)
      else
        let s' := step s ch
        runChoices s' rest (s!"{labelsOf s}>{eventsOf s s' ch}" :: acc)

def handleChan (st : ChanSt) : List String → Option (ChanSt × String)
  | "CHAN" :: mx :: n :: rest => do
    let mx ← parseNat mx
    let n ← parseNat n
    match parseProgs n rest [] with
    | some (progs, ";" :: cs) =>
      let (toks, s) := runChoices (init mx progs) cs []
      some (st, String.intercalate " " toks ++ " # " ++ dump s)
    | _ => some (st, "bad-config")
  | _ => none

end Drv
