import Driver.Tok
/- line-protocol handlers of this area; see docs/AGENT_GUIDE.md -/
namespace Drv

structure EnumDSt where
  dummy : Unit := ()

def handleEnumD (st : EnumDSt) (_toks : List String) : Option (EnumDSt × String) :=
  let _ := st
  none

end Drv
