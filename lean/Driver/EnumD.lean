import Driver.Tok
import BpModel.EnumM
/- line-protocol handlers of the enum area (C20); see docs/AGENT_GUIDE.md and docs/C20-notes.md

   ENUMDEF <eid> { <name> <number> }*         define (or redefine) an enum class         -> ok <len>
   ENUMOP  <eid> <op> <args>                  one operation of a lock-step run (state kept per eid)
       call v | getitem n | getattr n | try v | fromstr n | iter | rev | len | names
       contains v | containsint v
       setcls n v | delcls n | memset n v | setmem v <name|value|other> x | delmem v <name|value|other>
       copy v | deepcopy v | pickle v
       tojson v | fromjson S n | fromjson I v
   ENUMWIRE <n>                               enum scalar through the wire model: bytes, then decoded number

   replies:  member  `<name|~> <number> <c|n>`            (c = it is the canonical object of its number)
             copy    `<name|~> <number> <c|n> <same|diff>` (same = the object that was copied)
             list    `L <k> { <name|~> <number> <c|n> }*`
             `T` / `F`, a number, `S <name>` / `I <number>` / `NULL`, `ERR <kind>` -/
namespace Drv
open Bp Bp.EnumM

structure EnumDSt where
  enums : List (String × Cls String) := []

def showEnumName : Option String → String
  | some n => n
  | none => "~"

def showMember (c : Cls String) (m : Member String) : String :=
  s!"{showEnumName m.name} {m.number} {if isCanonical c m then "c" else "n"}"

def showOut (c : Cls String) : Out String → String
  | .member m => showMember c m
  | .copied m src => showMember c m ++ (if m.same src then " same" else " diff")
  | .members ms => s!"L {ms.length}" ++ String.join (ms.map fun m => " " ++ showMember c m)
  | .nat n => toString n
  | .bool b => if b then "T" else "F"
  | .err e => "ERR " ++ errName e

def parseDecl : List String → List (String × Int) → Option (Decl String)
  | [], acc => some acc.reverse
  | n :: v :: rest, acc =>
    match parseInt v with
    | some v => parseDecl rest ((n, v) :: acc)
    | none => none
  | _, _ => none

def parseAttr : String → Option Attr
  | "name" => some .name
  | "value" => some .value
  | "other" => some .other
  | _ => none

def parseEnumOp : List String → Option (EnumM.Op String)
  | ["call", v] => (parseInt v).map .call
  | ["getitem", n] => some (.getitem n)
  | ["getattr", n] => some (.getattr n)
  | ["try", v] => (parseInt v).map .tryValue
  | ["fromstr", n] => some (.fromString n)
  | ["iter"] => some .iter
  | ["rev"] => some .reversed
  | ["len"] => some .len
  | ["contains", v] => (parseInt v).map .contains
  | ["containsint", v] => (parseInt v).map .containsInt
  | ["setcls", n, v] => (parseInt v).map (.setattrCls n)
  | ["delcls", n] => some (.delattrCls n)
  | ["memset", n, v] => (parseInt v).map (.membersSet n)
  | ["setmem", v, a, x] => do
    let v ← parseInt v
    let a ← parseAttr a
    let x ← parseInt x
    some (.setattrMem v a x)
  | ["delmem", v, a] => do
    let v ← parseInt v
    let a ← parseAttr a
    some (.delattrMem v a)
  | ["copy", v] => (parseInt v).map .copy
  | ["deepcopy", v] => (parseInt v).map .deepcopy
  | ["pickle", v] => (parseInt v).map .pickle
  | _ => none

def showJ : Option (JEnum String) → String
  | some (.name n) => "S " ++ n
  | some (.num v) => s!"I {v}"
  | none => "NULL"

def EnumDSt.put (st : EnumDSt) (eid : String) (c : Cls String) : EnumDSt :=
  { st with enums := (eid, c) :: st.enums.filter (·.1 != eid) }

def handleEnumD (st : EnumDSt) : List String → Option (EnumDSt × String)
  | "ENUMDEF" :: eid :: rest =>
    match parseDecl rest [] with
    | some d =>
      if NamesNodup d then
        let c := mk d
        some (st.put eid c, s!"ok {len c}")
      else some (st, "bad-enum duplicate-name")
    | none => some (st, "bad-enum")
  | ["ENUMOP", eid, "names"] => do
    let c ← st.enums.lookup eid
    some (st, s!"L {(memberNames c).length}" ++ String.join ((memberNames c).map (" " ++ ·)))
  | ["ENUMOP", eid, "tojson", v] => do
    let c ← st.enums.lookup eid
    let v ← parseInt v
    some (st, showJ (dumpEnum c v))
  | ["ENUMOP", eid, "fromjson", k, x] => do
    let c ← st.enums.lookup eid
    let j ← (if k == "S" then some (JEnum.name x) else if k == "I" then (parseInt x).map JEnum.num else none)
    let (c', r) := parseEnum c j
    some (st.put eid c', match r with
      | .ok m => showMember c' m
      | .error e => "ERR " ++ errName e)
  | "ENUMOP" :: eid :: rest => do
    let c ← st.enums.lookup eid
    let op ← parseEnumOp rest
    let (c', o) := step c op
    some (st.put eid c', showOut c' o)
  | ["ENUMWIRE", n] => do
    let n ← parseInt n
    match prepPlain .enum (.int n) with
    | .error e => some (st, "ERR " ++ errName e)
    | .ok bs =>
      match loadVarint bs with
      | .error e => some (st, toHex bs ++ " ERR " ++ errName e)
      | .ok (k, used) =>
        match postVarint .enum k with
        | .int n' => some (st, s!"{toHex bs} {used} {n'}")
        | _ => some (st, toHex bs ++ " ERR type")
  | _ => none

end Drv
