import Driver.Tok
import BpModel.Grpc
import BpModel.GrpcCall
/- line-protocol handlers of the Grpc area (C11); strings travel as hex of their ASCII bytes (`-` = empty)

   GROUTE <hex package|-> <hex service> <hex method>   -> hex of the route
   GCARD <cs 0|1> <ss 0|1>                              -> <helper> <CARDINALITY> <recv> <send>
   GKW <stub timeout|-> <stub deadline|-> <stub metadata|-> <call timeout|-> <call deadline|-> <call metadata|->
                                                        -> <timeout|-> <deadline|-> <metadata|->
   GCALL <uu|us|su|ss> <gen 0|1> <script|-> <fin> <reqs|-> [<schedule of M/S/V>]
         script: comma-separated  p (pull) | P (pull, at the end of the stream go to fin) | y<n> (yield n) |
                 e (yield last request + 1000) | d (pull to the end) | D (pull to the end, echoing each request + 1000)
         fin: ret<n> | retnone | raise<status>;   reqs: comma-separated numbers
         without a schedule: `call`; with one: `run true schedule` from the start of the call
                                                        -> q=<0|1> calls=<n> hin=<s<n>|n,…|-> served=<0|1> yielded=<n,…|-> result=<…>  -/
namespace Drv
open Bp.Grpc Bp.GrpcCall

structure GrpcSt where
  dummy : Unit := ()

def gHex (s : String) : Option (List Char) := (parseHex s).map fun bs => bs.map Char.ofNat
def gToHex (s : List Char) : String := toHex (s.map Char.toNat)

def optTok (s : String) : Option String := if s == "-" then none else some s
def showTok : Option String → String
  | none => "-"
  | some s => s

inductive GAct
  | pull | pullStop | yieldC (n : Nat) | yieldLast | drain (echo : Bool)

/-- "pull the request iterator to its end" with room for `fuel` requests (a handler tree is well founded: one tree
    per call, `fuel` above the number of requests of that call) -/
def gDrain (echo : Bool) (k : Nat → HProg Nat Nat) : Nat → Nat → HProg Nat Nat
  | 0, last => k last
  | f + 1, last => .recv fun a =>
    match a with
    | none => k last
    | some x => if echo then .yield (x + 1000) (gDrain echo k f x) else gDrain echo k f x

def gBuild (fuel : Nat) (fin : HProg Nat Nat) : List GAct → Nat → HProg Nat Nat
  | [], _ => fin
  | .pull :: r, last => .recv fun a => gBuild fuel fin r (a.getD last)
  | .pullStop :: r, _ => .recv fun a =>
    match a with
    | none => fin
    | some x => gBuild fuel fin r x
  | .yieldC n :: r, last => .yield n (gBuild fuel fin r last)
  | .yieldLast :: r, last => .yield (last + 1000) (gBuild fuel fin r last)
  | .drain e :: r, last => gDrain e (fun l => gBuild fuel fin r l) fuel last

def gAct (s : String) : Option GAct :=
  if s == "p" then some .pull else if s == "P" then some .pullStop else if s == "e" then some .yieldLast
  else if s == "d" then some (.drain false) else if s == "D" then some (.drain true)
  else if s.startsWith "y" then (parseNat (s.drop 1).toString).map GAct.yieldC else none

def gList {α : Type} (f : String → Option α) (s : String) : Option (List α) :=
  if s == "-" then some [] else (s.splitOn ",").mapM f

def gFin (s : String) : Option (HProg Nat Nat) :=
  if s == "retnone" then some (.ret none)
  else if s.startsWith "ret" then (parseNat (s.drop 3).toString).map fun n => .ret (some n)
  else if s.startsWith "raise" then (parseNat (s.drop 5).toString).map fun n => .raise ⟨n, none⟩
  else none

def gCard (s : String) : Option Card :=
  if s == "uu" then some .unaryUnary else if s == "us" then some .unaryStream
  else if s == "su" then some .streamUnary else if s == "ss" then some .streamStream else none

def gTask (c : Char) : Option Task :=
  if c == 'M' then some .M else if c == 'S' then some .S else if c == 'V' then some .V else none

def gShowList (xs : List String) : String := if xs.isEmpty then "-" else ",".intercalate xs

def gShowResult : CResult Nat → String
  | .returned (some n) => s!"ret:{n}"
  | .returned none => "ret:none"
  | .grpcError e => s!"grpc:{e.status}"
  | .protocolError => "protocol"
  | .closedError => "closed"
  | .assertionError => "assert"
  | .hang => "hang"

def gShow (q : Bool) (o : Outcome Nat Nat) : String :=
  let hin := gShowList (o.hIn.map fun | some n => s!"s{n}" | none => "n")
  let ys := gShowList (o.yielded.map toString)
  s!"q={if q then 1 else 0} calls={o.calls} hin={hin} served={if o.served then 1 else 0} yielded={ys} result={gShowResult o.result}"

def gCall (card gen script fin reqs : String) (sched : Option String) : Option String := do
  let card ← gCard card
  let acts ← gList gAct script
  let fin ← gFin fin
  let reqs ← gList parseNat reqs
  let h : Handler Nat Nat := ⟨gen == "1", fun r => gBuild (reqs.length + 2) fin acts (r.getD 0)⟩
  match sched with
  | none => some (gShow true (call card h reqs))
  | some s =>
    let σ ← s.toList.mapM gTask
    let c := run true σ (init (helperProg (α := Unit) card [] ⟨none, none, none⟩ reqs) (rpcShape card) h)
    some (gShow (quiescent true c) (outcome c))

def handleGrpc (st : GrpcSt) : List String → Option (GrpcSt × String)
  | ["GROUTE", p, s, m] => do
    let p ← gHex p
    let s ← gHex s
    let m ← gHex m
    some (st, gToHex (route p s m))
  | ["GCARD", cs, ss] =>
    let cs := cs == "1"
    let ss := ss == "1"
    some (st, s!"{helperOf cs ss} {mappingCardOf cs ss} {recvOf cs} {sendOf ss}")
  | ["GKW", a, b, c, d, e, f] =>
    let r := resolveKw (α := String) ⟨optTok a, optTok b, optTok c⟩ ⟨optTok d, optTok e, optTok f⟩
    some (st, s!"{showTok r.timeout} {showTok r.deadline} {showTok r.metadata}")
  | ["GCALL", card, gen, script, fin, reqs] => (gCall card gen script fin reqs none).map fun r => (st, r)
  | ["GCALL", card, gen, script, fin, reqs, sched] => (gCall card gen script fin reqs (some sched)).map fun r => (st, r)
  | _ => none

end Drv
