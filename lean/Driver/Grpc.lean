import Driver.Tok
/- line-protocol handlers of this area; see docs/AGENT_GUIDE.md -/
namespace Drv

structure GrpcSt where
  dummy : Unit := ()

def handleGrpc (st : GrpcSt) (_toks : List String) : Option (GrpcSt × String) :=
  let _ := st
  none

end Drv
