import Driver.Tok
import BpModel.Grpc
/- line-protocol handlers of the Grpc area (C11); strings travel as hex of their ASCII bytes (`-` = empty)

   GROUTE <hex package|-> <hex service> <hex method>   -> hex of the route
   GCARD <cs 0|1> <ss 0|1>                              -> <helper> <CARDINALITY> <recv> <send>
   GKW <stub timeout|-> <stub deadline|-> <stub metadata|-> <call timeout|-> <call deadline|-> <call metadata|->
                                                        -> <timeout|-> <deadline|-> <metadata|->      -/
namespace Drv
open Bp.Grpc

structure GrpcSt where
  dummy : Unit := ()

def gHex (s : String) : Option (List Char) := (parseHex s).map fun bs => bs.map Char.ofNat
def gToHex (s : List Char) : String := toHex (s.map Char.toNat)

def optTok (s : String) : Option String := if s == "-" then none else some s
def showTok : Option String → String
  | none => "-"
  | some s => s

def handleGrpc (st : GrpcSt) : List String → Option (GrpcSt × String)
  | ["GROUTE", p, s, m] => do
    let p ← gHex p
    let s ← gHex s
    let m ← gHex m
    some (st, gToHex (route p s m))
  | ["GCARD", cs, ss] =>
    let cs := cs == "1"
    let ss := ss == "1"
    some (st, s!"{helperOf cs ss} {mappingCardOf cs ss} {recvOf cs} {sendOf ss}")
  | ["GKW", a, b, c, d, e, f] =>
    let r := resolveKw (α := String) ⟨optTok a, optTok b, optTok c⟩ ⟨optTok d, optTok e, optTok f⟩
    some (st, s!"{showTok r.timeout} {showTok r.deadline} {showTok r.metadata}")
  | _ => none

end Drv
