import BpModel.Heap
import Driver.Tok
/- line-protocol handler for the heap model of copy / deepcopy (C14, aliasing half)

   HEAPCOPY <kind> <root> <ncells> <cell>* ; <mutation>*
     kind      copy | deepcopy | pickle | deepcopy-sharegc | copy-sharegc   (the last two: seeded-bug models)
     cell      M <ow> <unk> <gc> <n> <hval>*n | L <n> <hval>*n | D <n> (<key> <hval>)*n | G <n> (-|<k>)*n | B <hex>
     hval      -  (PLACEHOLDER) | l<tag> | r<id>
     mutation  <o|c> <path> <op> …    path = "." or s<i>/i<k>/k<pos>/… from the original / the copy, resolved when applied
       set <i> <payload> | sel <g> <i> <sibs: a,b,c or -> <payload> | app <payload> | clr | put <key> <payload> | unk <hex>
       payload   l<tag> | N<ngroups>:<hval>,<hval>,…   (a NEW message whose fields were read once: defaults stored)
   reply   <sharing classes right after the copy> | <value of the original after the mutations> | <value of the copy>
     sharing classes: every path to a message / list / dict from the original (o…) and from the copy (c…), each with the
     index of the FIRST path that leads to the same object -/
namespace Drv
open Bp.Hp

def parseHVal (s : String) : Option HVal :=
  if s == "-" then some .ph
  else if s.startsWith "l" then (parseNat (s.drop 1).toString).map .leaf
  else if s.startsWith "r" then (parseNat (s.drop 1).toString).map .ref
  else none

partial def parseHVals (n : Nat) (toks : List String) (acc : List HVal) : Option (List HVal × List String) :=
  if n == 0 then some (acc.reverse, toks) else
  match toks with
  | t :: r => (parseHVal t).bind fun v => parseHVals (n - 1) r (v :: acc)
  | [] => none

partial def parseEntries (n : Nat) (toks : List String) (ks : List Nat) (vs : List HVal) :
    Option (List Nat × List HVal × List String) :=
  if n == 0 then some (ks.reverse, vs.reverse, toks) else
  match toks with
  | k :: v :: r => do
    let k ← parseNat k
    let v ← parseHVal v
    parseEntries (n - 1) r (k :: ks) (v :: vs)
  | _ => none

partial def parseSel (n : Nat) (toks : List String) (acc : List (Option Nat)) : Option (List (Option Nat) × List String) :=
  if n == 0 then some (acc.reverse, toks) else
  match toks with
  | t :: r => (optNat t).bind fun v => parseSel (n - 1) r (v :: acc)
  | [] => none

def parseCell : List String → Option (Cell × List String)
  | "M" :: ow :: u :: g :: n :: r => do
    let u ← parseNat u
    let g ← parseNat g
    let n ← parseNat n
    let (sl, r') ← parseHVals n r []
    some (.msg sl (ow == "1") u g, r')
  | "L" :: n :: r => do
    let n ← parseNat n
    let (it, r') ← parseHVals n r []
    some (.list it, r')
  | "D" :: n :: r => do
    let n ← parseNat n
    let (ks, vs, r') ← parseEntries n r [] []
    some (.dict ks vs, r')
  | "G" :: n :: r => do
    let n ← parseNat n
    let (sel, r') ← parseSel n r []
    some (.gcur sel, r')
  | "B" :: hx :: r => (parseHex hx).map fun bs => (.bytes bs, r)
  | _ => none

partial def parseCells (n : Nat) (toks : List String) (acc : List Cell) : Option (Heap × List String) :=
  if n == 0 then some (acc.reverse, toks) else
  match parseCell toks with
  | some (c, r) => parseCells (n - 1) r (c :: acc)
  | none => none

partial def showTree : Tree → String
  | .ph => "-"
  | .leaf t => "l" ++ toString t
  | .msg sl ow u sel =>
    "M(" ++ (if ow then "1" else "0") ++ "," ++ toHex u ++ ","
      ++ String.intercalate "." (sel.map fun o => match o with | none => "-" | some k => toString k)
      ++ ";" ++ String.intercalate "," (sl.map showTree) ++ ")"
  | .list it => "L(" ++ String.intercalate "," (it.map showTree) ++ ")"
  | .dict ks vs => "D(" ++ String.intercalate "," ((ks.zip vs).map fun (k, v) => toString k ++ ":" ++ showTree v) ++ ")"
  | .gsel _ => "G"
  | .blob _ => "B"
  | .cut => "#"

def enumFrom {α} (l : List α) : List (Nat × α) := (List.range l.length).zip l

/-- every path to a message / list / dict object -/
partial def heapPaths (h : Heap) (fuel : Nat) (pfx : String) (id : Nat) : List (String × Nat) :=
  if fuel == 0 then [] else
  let sub (tag : String) (vs : List HVal) : List (String × Nat) :=
    (enumFrom vs).flatMap fun (k, v) =>
      match v with
      | .ref j => heapPaths h (fuel - 1) (pfx ++ "/" ++ tag ++ toString k) j
      | _ => []
  match h[id]? with
  | some (.msg sl _ _ _) => (pfx, id) :: sub "s" sl
  | some (.list it) => (pfx, id) :: sub "i" it
  | some (.dict _ vs) => (pfx, id) :: sub "k" vs
  | _ => []

def sharing (ps : List (String × Nat)) : String :=
  let ids := ps.map (·.2)
  String.intercalate " " (ps.map fun (p, id) => p ++ "=" ++ toString (ids.idxOf id))

/-- follow a path -/
def resolve (h : Heap) : Nat → List String → Option Nat
  | id, [] => some id
  | id, step :: rest =>
    let k := (parseNat (step.drop 1).toString).getD 0
    let next (vs : List HVal) : Option Nat :=
      match vs[k]? with
      | some (.ref j) => resolve h j rest
      | _ => none
    match h[id]? with
    | some (.msg sl _ _ _) => if step.startsWith "s" then next sl else none
    | some (.list it) => if step.startsWith "i" then next it else none
    | some (.dict _ vs) => if step.startsWith "k" then next vs else none
    | _ => none

def parsePath (s : String) : List String := if s == "." then [] else (s.splitOn "/").filter (· != "")

/-- payload: the value, after the allocations it needs -/
def payload (h : Heap) (s : String) : Option (Heap × HVal) :=
  if s.startsWith "N" then
    match ((s.drop 1).toString).splitOn ":" with
    | [ng, slots] => do
      let ng ← parseNat ng
      let vs ← (if slots == "" then some [] else (slots.splitOn ",").mapM parseHVal)
      let h1 := applyMut h (.newMsg vs.length ng)
      let id := h.length + 2
      -- the reads that stored the defaults
      let h2 := (enumFrom vs).foldl (fun hh (i, v) => applyMut hh (.fill id i v)) h1
      some (h2, .ref id)
    | _ => none
  else (parseHVal s).map fun v => (h, v)

partial def runHeapMuts (h : Heap) (o c : Nat) : List String → Option Heap
  | [] => some h
  | side :: path :: op :: rest => do
    let root := if side == "o" then o else c
    let t ← resolve h root (parsePath path)
    match op, rest with
    | "set", i :: p :: r => do
      let i ← parseNat i
      let (h1, v) ← payload h p
      runHeapMuts (applyMut h1 (.setSlot t i v)) o c r
    | "sel", g :: i :: sibs :: p :: r => do
      let g ← parseNat g
      let i ← parseNat i
      let sibs ← (if sibs == "-" then some [] else (sibs.splitOn ",").mapM parseNat)
      let (h1, v) ← payload h p
      runHeapMuts (applyMut h1 (.selectMember t g i sibs v)) o c r
    | "app", p :: r => do
      let (h1, v) ← payload h p
      runHeapMuts (applyMut h1 (.listAppend t v)) o c r
    | "clr", r => runHeapMuts (applyMut h (.listClear t)) o c r
    | "put", k :: p :: r => do
      let k ← parseNat k
      let (h1, v) ← payload h p
      runHeapMuts (applyMut h1 (.dictSet t k v)) o c r
    | "unk", hx :: r => do
      let bs ← parseHex hx
      runHeapMuts (applyMut h (.mergeUnknown t bs)) o c r
    | _, _ => none
  | _ => none

def copyKind (kind : String) (h : Heap) (o : Nat) : Option (Heap × Nat) :=
  let fuel := h.length + 2
  if kind == "copy" then shallowCopy h o
  else if kind == "deepcopy" then deepCopy fuel h o
  else if kind == "pickle" then pickleCopy fuel h o
  else if kind == "deepcopy-sharegc" then copyWith { shareGc := true } fuel h o
  else if kind == "copy-sharegc" then shallowCopySharedGc h o
  else none

def handleHeapD : List String → Option String
  | "HEAPCOPY" :: kind :: root :: n :: rest => do
    let o ← parseNat root
    let n ← parseNat n
    let (h, r) ← parseCells n rest []
    match r with
    | ";" :: muts =>
      if !closedB h then some "ERR not-closed" else
      match copyKind kind h o with
      | none => some "ERR no-copy"
      | some (h1, c) =>
        let depth := h1.length + 2
        let sh := sharing (heapPaths h1 depth "o" o ++ heapPaths h1 depth "c" c)
        match runHeapMuts h1 o c muts with
        | none => some "ERR bad-mutation"
        | some h2 =>
          let d2 := h2.length + 2
          some (sh ++ " | " ++ showTree (absVal d2 h2 o) ++ " | " ++ showTree (absVal d2 h2 c))
    | _ => none
  | _ => none

end Drv
