import Driver.Wire
/- line-protocol handlers of this area; see docs/AGENT_GUIDE.md -/
namespace Drv

structure JsonSt where
  dummy : Unit := ()

def handleJson (st : JsonSt) (_wire : St) (_toks : List String) : Option (JsonSt × String) :=
  let _ := st
  none

end Drv
