import Driver.Wire
import BpModel.Json
import BpModel.JsonSpec
/- line-protocol handlers of the JSON area (C04 C05); see docs/C04-notes.md -/
namespace Drv
open Bp

structure JsonSt where
  enums : Enums := []

def showJKey : JKey → String
  | .str s => "k" ++ toHex s
  | .int i => s!"ki{i}"
  | .bool b => if b then "kb1" else "kb0"

def showJRaw : Val → String
  | .byt b => "RAWy" ++ toHex b
  | .ts us => s!"RAWt{us}"
  | .dur us => s!"RAWd{us}"
  | .ph => "RAWP"
  | _ => "RAW?"

/-- canonical one-line text of a JSON value (prefix notation, also the input syntax) -/
partial def showJV : JVal → String
  | .null => "N"
  | .bool b => if b then "B1" else "B0"
  | .num i => s!"I{i}"
  | .fnum32 b => s!"F32:{b}"
  | .fnum b => s!"F64:{b}"
  | .fstr k => s!"FS{k}"
  | .str s => "S" ++ toHex s
  | .decStr i => s!"DS{i}"
  | .b64 b => "B64" ++ toHex b
  | .tsStr us => s!"TS{us}"
  | .durStr us => s!"DU{us}"
  | .arr xs => s!"A{xs.length}" ++ String.join (xs.map fun x => " " ++ showJV x)
  | .obj ks vs => s!"O{ks.length}" ++ String.join ((ks.zip vs).map fun (k, v) => " " ++ showJKey k ++ " " ++ showJV v)
  | .raw v => showJRaw v

def jDropS (n : Nat) (s : String) : String := (s.drop n).toString

def parseJKey (s : String) : Option JKey :=
  if s.startsWith "ki" then (parseInt (jDropS 2 s)).map JKey.int
  else if s == "kb1" then some (.bool true)
  else if s == "kb0" then some (.bool false)
  else if s.startsWith "k" then (parseHex (jDropS 1 s)).map JKey.str
  else none

mutual
partial def parseJV : List String → Option (JVal × List String)
  | [] => none
  | t :: r =>
    if t == "N" then some (.null, r)
    else if t == "B1" then some (.bool true, r)
    else if t == "B0" then some (.bool false, r)
    else if t.startsWith "B64" then (parseHex (jDropS 3 t)).map fun b => (.b64 b, r)
    else if t.startsWith "I" then (parseInt (jDropS 1 t)).map fun i => (.num i, r)
    else if t.startsWith "F32:" then (parseNat (jDropS 4 t)).map fun b => (.fnum32 b, r)
    else if t.startsWith "F64:" then (parseNat (jDropS 4 t)).map fun b => (.fnum b, r)
    else if t.startsWith "FS" then (parseNat (jDropS 2 t)).map fun k => (.fstr k, r)
    else if t.startsWith "S" then (parseHex (jDropS 1 t)).map fun s => (.str s, r)
    else if t.startsWith "DS" then (parseInt (jDropS 2 t)).map fun i => (.decStr i, r)
    else if t.startsWith "TS" then (parseInt (jDropS 2 t)).map fun i => (.tsStr i, r)
    else if t.startsWith "DU" then (parseInt (jDropS 2 t)).map fun i => (.durStr i, r)
    else if t.startsWith "RAWy" then (parseHex (jDropS 4 t)).map fun b => (.raw (.byt b), r)
    else if t.startsWith "RAWt" then (parseInt (jDropS 4 t)).map fun i => (.raw (.ts i), r)
    else if t.startsWith "RAWd" then (parseInt (jDropS 4 t)).map fun i => (.raw (.dur i), r)
    else if t.startsWith "A" then do
      let n ← parseNat (jDropS 1 t)
      let (xs, r') ← parseJVs n r []
      some (.arr xs, r')
    else if t.startsWith "O" then do
      let n ← parseNat (jDropS 1 t)
      let (kvs, r') ← parseJKVs n r []
      some (.obj (kvs.map (·.1)) (kvs.map (·.2)), r')
    else none
partial def parseJVs (n : Nat) (toks : List String) (acc : List JVal) : Option (List JVal × List String) :=
  if n == 0 then some (acc.reverse, toks) else
  match parseJV toks with
  | some (v, r) => parseJVs (n - 1) r (v :: acc)
  | none => none
partial def parseJKVs (n : Nat) (toks : List String) (acc : List (JKey × JVal)) : Option (List (JKey × JVal) × List String) :=
  if n == 0 then some (acc.reverse, toks) else
  match toks with
  | k :: r =>
    match parseJKey k, parseJV r with
    | some k, some (v, r') => parseJKVs (n - 1) r' ((k, v) :: acc)
    | _, _ => none
  | [] => none
end

partial def parseJMems (n : Nat) (toks : List String) (acc : EnumDef) : Option (EnumDef × List String) :=
  if n == 0 then some (acc.reverse, toks) else
  match toks with
  | py :: pr :: num :: r =>
    match parseHex py, parseHex pr, parseInt num with
    | some py, some pr, some num => parseJMems (n - 1) r ({ py := py, proto := pr, num := num } :: acc)
    | _, _, _ => none
  | _ => none

partial def parseJEnums (n : Nat) (toks : List String) (acc : Enums) : Option (Enums × List String) :=
  if n == 0 then some (acc.reverse, toks) else
  match toks with
  | m :: r =>
    match parseNat m with
    | some m =>
      match parseJMems m r [] with
      | some (e, r') => parseJEnums (n - 1) r' (e :: acc)
      | none => none
    | none => none
  | [] => none

def jCaseOf (s : String) : Option KeyCase :=
  if s == "camel" then some .camel else if s == "snake" then some .snake else none

def showMsgR (S : Schema) : R Val → String :=
  showR fun v => obsPVal S v ++ " | " ++ showR toHex (dumpVal S v)

def fromForm (S : Schema) (E : Enums) (cls : Nat) (form : String) (j : JVal) : R Val :=
  if form == "I" then fromDictI S E (fresh S cls) j else fromDictC S E cls j

def handleJson (st : JsonSt) (wire : St) : List String → Option (JsonSt × String)
  -- JENUMS n { m (pyhex protohex num)* }*
  | "JENUMS" :: n :: rest => do
    let n ← parseNat n
    match parseJEnums n rest [] with
    | some (E, []) => some ({ st with enums := E }, "ok")
    | _ => some (st, "bad-enums")
  -- TODICT sid casing incl <val>
  | "TODICT" :: sid :: cs :: incl :: rest => do
    let S ← wire.schema sid
    let cs ← jCaseOf cs
    let (v, r) ← parseVal S rest
    if !r.isEmpty then none else
    some (st, showJV (toDict S st.enums cs (incl == "1") v))
  -- FROMDICT sid cls form <jval>
  | "FROMDICT" :: sid :: cls :: form :: rest => do
    let S ← wire.schema sid
    let cls ← parseNat cls
    let (j, r) ← parseJV rest
    if !r.isEmpty then none else
    some (st, showMsgR S (fromForm S st.enums cls form j))
  -- JRT sid casing form path <val> : to_dict, optionally through JSON text, from_dict
  | "JRT" :: sid :: cs :: form :: path :: rest => do
    let S ← wire.schema sid
    let cs ← jCaseOf cs
    let (v, r) ← parseVal S rest
    if !r.isEmpty then none else
    let cls := match v with | .msg c _ _ _ _ => c | _ => 0
    let d := toDict S st.enums cs false v
    let d' := if path == "T" then jsonText d else some d
    match d' with
    | none => some (st, "ERR type")
    | some d' => some (st, showMsgR S (fromForm S st.enums cls form d'))
  -- JTEXT <jval> : json.loads(json.dumps(j))
  | "JTEXT" :: rest => do
    let (j, r) ← parseJV rest
    if !r.isEmpty then none else
    some (st, match jsonText j with | some j' => showJV j' | none => "ERR type")
  -- SPECJSON sid <val> : the canonical proto3 JSON of the value
  | "SPECJSON" :: sid :: rest => do
    let S ← wire.schema sid
    let (v, r) ← parseVal S rest
    if !r.isEmpty then none else
    some (st, showJV (specJson S st.enums v))
  -- WF JSONOK sid casing | WF JSONOK5 sid | WF WT sid <val>
  | "WF" :: "JSONOK" :: sid :: cs :: [] => do
    let S ← wire.schema sid
    let cs ← jCaseOf cs
    some (st, if jsonOk S st.enums cs then "1" else "0")
  | "WF" :: "JSONOK5" :: sid :: [] => do
    let S ← wire.schema sid
    some (st, if jsonOk5 S st.enums then "1" else "0")
  | "WF" :: "WT" :: sid :: rest => do
    let S ← wire.schema sid
    let (v, r) ← parseVal S rest
    if !r.isEmpty then none else
    some (st, if wellTyped S v then "1" else "0")
  | _ => none

end Drv
