import Driver.Wire
import Driver.Casing
import Driver.Chan
import Driver.Plugin
import Driver.EnumD
import Driver.Json
import Driver.TimeD
import Driver.Ops
import Driver.Typing
import Driver.Grpc
import Driver.Spec
import Driver.HeapD
import Driver.PyDict
import Driver.PluginSchema
/- line protocol: one request per line on stdin, one reply per line on stdout -/
open Drv

structure AllSt where
  wire : St := {}
  casing : CasingSt := {}
  chan : ChanSt := {}
  plugin : PluginSt := {}
  enumd : EnumDSt := {}
  json : JsonSt := {}
  timed : TimeDSt := {}
  ops : OpsSt := {}
  typing : TypingSt := {}
  grpc : GrpcSt := {}

def step (st : AllSt) (line : String) : AllSt × String :=
  let toks := (line.splitOn " ").filter (· != "")
  match handleWire st.wire toks with
  | some (s, r) => ({ st with wire := s }, r)
  | none =>
  match handleCasing st.casing toks with
  | some (s, r) => ({ st with casing := s }, r)
  | none =>
  match handleChan st.chan toks with
  | some (s, r) => ({ st with chan := s }, r)
  | none =>
  match handlePlugin st.plugin toks with
  | some (s, r) => ({ st with plugin := s }, r)
  | none =>
  match handleEnumD st.enumd toks with
  | some (s, r) => ({ st with enumd := s }, r)
  | none =>
  match handleJson st.json st.wire toks with
  | some (s, r) => ({ st with json := s }, r)
  | none =>
  match handleTimeD st.timed toks with
  | some (s, r) => ({ st with timed := s }, r)
  | none =>
  match handleOps st.ops st.wire toks with
  | some (s, r) => ({ st with ops := s }, r)
  | none =>
  match handleTyping st.typing toks with
  | some (s, r) => ({ st with typing := s }, r)
  | none =>
  match handleGrpc st.grpc toks with
  | some (s, r) => ({ st with grpc := s }, r)
  | none =>
  match handleSpec st.wire toks with
  | some r => (st, r)
  | none =>
  match handleHeapD toks with
  | some r => (st, r)
  | none =>
  match handlePyDict st.wire toks with
  | some r => (st, r)
  | none =>
  match handlePluginSchema toks with
  | some r => (st, r)
  | none => (st, "bad-op")

partial def loop (h : IO.FS.Stream) (out : IO.FS.Stream) (st : AllSt) : IO Unit := do
  let line ← h.getLine
  if line.isEmpty then return ()
  let line := (line.dropEndWhile (fun c => c == '\n' || c == '\r')).toString
  if line == "FLUSH" then
    out.putStrLn "flushed"; out.flush
    loop h out st
  else
    let (st', reply) := step st line
    out.putStrLn reply
    loop h out st'

def main : IO Unit := do
  let stdin ← IO.getStdin
  let stdout ← IO.getStdout
  loop stdin stdout {}
  stdout.flush
