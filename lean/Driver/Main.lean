import Driver.Wire
/- line protocol: one request per line on stdin, one reply per line on stdout -/
open Drv

def step (st : St) (line : String) : St × String :=
  let toks := (line.splitOn " ").filter (· != "")
  match handleWire st toks with
  | some r => r
  | none => (st, "bad-op")

partial def loop (h : IO.FS.Stream) (out : IO.FS.Stream) (st : St) : IO Unit := do
  let line ← h.getLine
  if line.isEmpty then return ()
  let line := (line.dropEndWhile (fun c => c == '\n' || c == '\r')).toString
  if line == "FLUSH" then
    out.putStrLn "flushed"; out.flush
    loop h out st
  else
    let (st', reply) := step st line
    out.putStrLn reply
    loop h out st'

def main : IO Unit := do
  let stdin ← IO.getStdin
  let stdout ← IO.getStdout
  loop stdin stdout {}
  stdout.flush
