import Driver.Wire
/- line-protocol handlers for operation histories (C06 C07 C14) -/
namespace Drv
open Bp

structure OpsSt where
  dummy : Unit := ()

/-- parse one op; returns it and the remaining tokens -/
def parseOp (S : Schema) : List String → Option (Op × List String)
  | "set" :: i :: r => do
    let i ← parseNat i
    let (v, r') ← parseVal S r
    some (.setattr i v, r')
  | "get" :: i :: r => (parseNat i).map fun i => (.getattr i, r)
  | "parse" :: h :: r => (parseHex h).map fun bs => (.parse bs, r)
  | "fd" :: n :: r => do
    let n ← parseNat n
    let (kw, r') ← parseKw S n r []
    some (.fromDict kw, r')
  | "copy" :: r => some (.copy, r)
  | "deepcopy" :: r => some (.deepcopy, r)
  | "pickle" :: r => some (.pickle, r)
  | "read" :: r => some (.readAll, r)
  | "raw" :: r => some (.rawObs, r)
  | _ => none

partial def runOps (S : Schema) (m : Val) (toks : List String) (acc : List String) : Option (List String) :=
  if toks.isEmpty then some acc.reverse else
  match parseOp S toks with
  | none => none
  | some (op, rest) =>
    match stepOp S m op with
    | .ok m' => runOps S m' rest ((obsPVal S m' ++ " | " ++ showR toHex (dumpVal S m')) :: acc)
    | .error e => runOps S m rest (("ERR " ++ errName e) :: acc)

def handleOps (st : OpsSt) (wire : St) : List String → Option (OpsSt × String)
  | "OBSP" :: sid :: rest => do
    let S ← wire.schema sid
    let (v, r) ← parseVal S rest
    if !r.isEmpty then none else
    some (st, obsPVal S v ++ " | " ++ showR toHex (dumpVal S v))
  -- OPS sid <initial val> ; <op> <op> ...   (initial value and ops separated by the token ";")
  | "OPS" :: sid :: rest => do
    let S ← wire.schema sid
    let (v, r) ← parseVal S rest
    match r with
    | ";" :: ops => (runOps S v ops []).map fun outs => (st, String.intercalate " ;; " outs)
    | _ => none
  -- FDC sid cls n (idx val)* : class-form from_dict
  | "FDC" :: sid :: cls :: n :: rest => do
    let S ← wire.schema sid
    let cls ← parseNat cls
    let n ← parseNat n
    let (kw, r) ← parseKw S n rest []
    if !r.isEmpty then none else
    let v := fromDictCls S cls kw
    some (st, obsPVal S v ++ " | " ++ showR toHex (dumpVal S v))
  | _ => none

end Drv
