import Driver.Wire
/- line-protocol handlers of this area; see docs/AGENT_GUIDE.md -/
namespace Drv

structure OpsSt where
  dummy : Unit := ()

def handleOps (st : OpsSt) (_wire : St) (_toks : List String) : Option (OpsSt × String) :=
  let _ := st
  none

end Drv
