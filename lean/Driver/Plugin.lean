import Driver.Tok
import BpModel.Plugin
/- line-protocol handlers of the Plugin area (C03); see docs/C03-notes.md for the grammar

   PLG <nfiles> FILE*  NAMES <ncls> (flat py)* <nfld> (name py)* <nmem> (member enumflat py)*
     FILE  := FILE <package|-> <nenums> ENUM* <nmsgs> MSG*
     ENUM  := E <name> <nvals> (<vname> <vnum>)*
     MSG   := M <name> <mapEntry 0|1> <noneofs> <oname>* <nfields> FIELD* <nenums> ENUM* <nnested> MSG*
     FIELD := F <name> <number> <label 1|2|3> <type> <typeName|-> <oneofIndex|-> <proto3Optional 0|1>
   reply: ERR | <nclasses> CLASS*
     CLASS := K <pyName> <full> <valid> <mapRefsLocal> <noWrapperMapValue> <nfields> (f <pyName> <meta|ERR> <observed spec|ERR> <schema spec|NONE>)*
            | N <pyName> <n> (<member> <number>)*
-/
namespace Drv
open Bp Bp.Plugin

structure PluginSt where
  dummy : Unit := ()

def nameOf (s : String) : Name := if s == "-" then [] else s.toList
def showName (n : Name) : String := if n.isEmpty then "-" else String.ofList n


def pField : List String → Option (FieldP × List String)
  | "F" :: name :: num :: lab :: ty :: tn :: oi :: p3 :: r => do
    let num ← parseNat num
    let ty ← parseNat ty
    let lab ← (match lab with | "1" => some Label.optional | "2" => some .required | "3" => some .repeated | _ => none)
    let oi ← optNat oi
    some ({ name := nameOf name, number := num, label := lab, type := ty, typeName := nameOf tn,
            oneofIndex := oi, proto3Optional := p3 == "1" }, r)
  | _ => none

partial def pMany {α} (p : List String → Option (α × List String)) (n : Nat) (toks : List String) (acc : List α) :
    Option (List α × List String) :=
  if n == 0 then some (acc.reverse, toks) else
  match p toks with
  | some (a, r) => pMany p (n - 1) r (a :: acc)
  | none => none

def pCounted {α} (p : List String → Option (α × List String)) : List String → Option (List α × List String)
  | n :: r => do
    let n ← parseNat n
    pMany p n r []
  | [] => none

def pNameTok : List String → Option (Name × List String)
  | s :: r => some (nameOf s, r)
  | [] => none

def pVal : List String → Option ((Name × Int) × List String)
  | n :: v :: r => do
    let v ← parseInt v
    some ((nameOf n, v), r)
  | _ => none

def pEnum : List String → Option (EnumP × List String)
  | "E" :: name :: r => do
    let (vs, r) ← pCounted pVal r
    some ({ name := nameOf name, values := vs }, r)
  | _ => none

partial def pMsg : List String → Option (MsgP × List String)
  | "M" :: name :: me :: r => do
    let (os, r) ← pCounted pNameTok r
    let (fs, r) ← pCounted pField r
    let (es, r) ← pCounted pEnum r
    let (ns, r) ← pCounted pMsg r
    some (.mk (nameOf name) fs ns es os (me == "1"), r)
  | _ => none

def pFile : List String → Option (FileP × List String)
  | "FILE" :: pkg :: r => do
    let (es, r) ← pCounted pEnum r
    let (ms, r) ← pCounted pMsg r
    some ({ package := nameOf pkg, messages := ms, enums := es }, r)
  | _ => none

def pPair : List String → Option ((Name × Name) × List String)
  | a :: b :: r => some ((nameOf a, nameOf b), r)
  | _ => none

def pTriple : List String → Option ((Name × Name) × List String)
  | a :: e :: b :: r => some ((nameOf a ++ '|' :: nameOf e, nameOf b), r)
  | _ => none

def mkNaming (cls fld mem : List (Name × Name)) : Naming :=
  { cls := fun n => (lookup? n cls).getD n,
    fld := fun n => (lookup? n fld).getD n,
    mem := fun n e => (lookup? (n ++ '|' :: e) mem).getD n }

def showPyT : PyT → String
  | .prim n => "p." ++ showName n
  | .optPrim n => "o." ++ showName n
  | .datetime => "dt"
  | .timedelta => "td"
  | .ref t => "r" ++ showName t

def showElem : Elem → String
  | .scalar n => "p." ++ showName n
  | .unwrapped n => "o." ++ showName n
  | .timestamp => "dt"
  | .duration => "td"
  | .ref t => "r" ++ showName t

def showCard : Card → String
  | .singular => "singular"
  | .optional => "optional"
  | .repeated => "repeated"
  | .map k v => s!"map:{Gen.typeName k}:{Gen.typeName v}"

def showOptT : Option PType → String
  | none => "-"
  | some t => Gen.typeName t

def showSpec (s : FieldSpec) : String :=
  s!"{s.number},{Gen.typeName s.ty},{showCard s.card},{showName (s.group.getD [])},{showOptT s.wraps},{showElem s.elem},{showName (s.keyPy.getD [])}"

def b01 (b : Bool) : String := if b then "1" else "0"

/-- the hint as `typing` shows it after evaluation: `Optional[Optional[X]]` = `Optional[X]` -/
def showAnn : Ann → String
  | .plain t => inner t
  | .list t => s!"List[{inner t}]"
  | .optional (.optPrim n) => s!"Optional[{showName n}]"
  | .optional t => s!"Optional[{inner t}]"
  | .dict k v => s!"Dict[{inner k},{inner v}]"
where inner : PyT → String
  | .prim n => showName n
  | .optPrim n => s!"Optional[{showName n}]"
  | .datetime => "datetime"
  | .timedelta => "timedelta"
  | .ref t => showName t

def showMeta (m : Meta) : String :=
  let mt := match m.mapTypes with | some (k, v) => s!"{Gen.typeName k}:{Gen.typeName v}" | none => "-"
  s!"{m.number},{Gen.typeName m.protoType},{mt},{showName (m.group.getD [])},{showOptT m.wraps},{b01 m.optional},{showAnn m.hint}"

/-- the messages of a file in traversal order with their full names (`.pkg.Outer.Inner`) -/
partial def fullNames (pre : Name) : List MsgP → List (Name × MsgP)
  | [] => []
  | m :: ms => (pre ++ '.' :: m.name, m) :: (fullNames (pre ++ '.' :: m.name) m.nested ++ fullNames pre ms)

def showClass (_nm : Naming) (fulls : List (Name × MsgP)) (idx : Nat) : Class → String
  | .enum n es => s!"N {showName n} {es.length}" ++ String.join (es.map fun (a, v) => s!" {showName a} {v}")
  | .message n cs =>
    match fulls[idx]? with
    | none => "K ?"
    | some (full, m) =>
      let fl := (m.fields.zip cs).map fun (f, c) =>
        let mta := match readBack c with | some mt => showMeta mt | none => "ERR"
        let obs := match readBack c with | some mt => showSpec (observe mt) | none => "ERR"
        let sp := match specOf full m f with | some s => showSpec s | none => "NONE"
        s!" f {showName c.pyName} {mta} {obs} {sp}"
      s!"K {showName n} {showName full} {b01 (validMsg full m)} {b01 (mapRefsLocal full m)} {b01 (noWrapperMapValue m)} {cs.length}"
        ++ String.join fl

def handlePlugin (st : PluginSt) : List String → Option (PluginSt × String)
  | "PLG" :: r => do
    let (files, r) ← pCounted pFile r
    match r with
    | "NAMES" :: r =>
      let (cls, r) ← pCounted pPair r
      let (fld, r) ← pCounted pPair r
      let (mem, _) ← pCounted pTriple r
      let nm := mkNaming cls fld mem
      match compilePackage nm files with
      | none => some (st, "ERR")
      | some classes =>
        -- full names of the non-map-entry messages, in the order the message classes appear
        let fulls := (files.map fun fl =>
          (fullNames (if fl.package.isEmpty then [] else '.' :: fl.package) fl.messages).filter (fun p => !p.2.mapEntry)).flatten
        let rec go (cs : List Class) (i : Nat) (acc : List String) : List String :=
          match cs with
          | [] => acc.reverse
          | c :: rest =>
            match c with
            | .message _ _ => go rest (i + 1) (showClass nm fulls i c :: acc)
            | .enum _ _ => go rest i (showClass nm fulls i c :: acc)
        let guard := files.all (noFlattenCollision nm)
        some (st, s!"{classes.length} {b01 guard} " ++ " ".intercalate (go classes 0 []))
    | _ => none
  | ["LEGACYMAP", fname, tn, n1, n2] =>
    -- the pre-fix `is_map` on a field `fname` of type `tn` in a message with map entries n1, n2
    let f : FieldP := { name := nameOf fname, number := 1, label := .repeated, type := typeMessage, typeName := nameOf tn }
    let m : MsgP := .mk [] [f] [.mk (nameOf n1) [] [] [] [] true, .mk (nameOf n2) [] [] [] [] true] [] [] false
    some (st, s!"{b01 (Legacy.isMap f m)} {showName ((Legacy.mapEntry f m).map MsgP.name |>.getD [])} {showName ((getMapEntry f m).map MsgP.name |>.getD [])}")
  | ["WRAPS", tn] =>
    some (st, s!"{showName ((wrapsOf (nameOf tn)).getD [])} {showName ((Legacy.wrapsOf (nameOf tn)).getD [])}")
  | _ => none

end Drv
