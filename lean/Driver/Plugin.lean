import Driver.Tok
/- line-protocol handlers of this area; see docs/AGENT_GUIDE.md -/
namespace Drv

structure PluginSt where
  dummy : Unit := ()

def handlePlugin (st : PluginSt) (_toks : List String) : Option (PluginSt × String) :=
  let _ := st
  none

end Drv
