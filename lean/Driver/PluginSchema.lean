import Driver.Plugin
import BpModel.PluginSchema
/- line-protocol handler of the plugin → runtime-schema link (C03 / C17 / C18)

   TOSCHEMA <nfiles> FILE*  NAMES …          (the payload of `PLG`, see Driver/Plugin.lean)
   reply: ERR | <whole 0|1> <pydsame 0|1> <nclasses> CLS*
     whole   = `toSchema` is defined for the package
     pydsame = `toSchema` of the pydantic variant = `toSchema` with the oneof members marked optional
     CLS := M <pyName> <inDomain 0|1> <specAgrees 0|1> <nGroups> <nfields> FLD*  |  X <pyName>
     FLD := F <num> <ty> <rep> <opt> <group|-> <wraps|-> <kind> <mapK> <mapV> <mapVKind> <enumRef|-> <defNone 0|1> <defDict 0|1> <name>
-/
namespace Drv
open Bp Bp.Plugin

def showMK : MsgKind → String
  | .user c => s!"u{c}"
  | .timestamp => "ts"
  | .duration => "dur"

def showON : Option Nat → String
  | none => "-"
  | some n => toString n

def showFieldD (f : FieldD) : String :=
  s!"{f.num} {Gen.typeName f.ty} {b01 f.repeated} {b01 f.optional} {showON f.group} {showOptT f.wraps} {showMK f.kind} {Gen.typeName f.mapK} {Gen.typeName f.mapV} {showMK f.mapVKind} {showON f.enumRef}"

def showMsgD (d : MsgD) : String :=
  s!"{d.nGroups} {d.fields.length}" ++ String.join (d.fields.map fun f => " " ++ showFieldD f ++ " " ++ f.name)

def showClassD (nm : Naming) (env : Env) (fulls : List (Name × MsgP)) (idx : Nat) (n : Name) (cs : List CField) : String :=
  match classD env cs with
  | none => s!"X {showName n}"
  | some d =>
    let (dom, agree) := match fulls[idx]? with
      | none => (false, false)
      | some (full, m) =>
        (validMsg full m && mapRefsLocal full m && noWrapperMapValue m,
         match specMsgD nm env full m with
         | some sd => showMsgD sd == showMsgD d
         | none => false)
    let fl := (d.fields.zip cs).map fun (f, c) =>
      let dn := !hintIsList c.ann && !hintIsDict c.ann && hintIsNone c.ann
      s!" F {showFieldD f} {b01 dn} {b01 (hintIsDict c.ann)} {f.name}"
    s!"M {showName n} {b01 dom} {b01 agree} {d.nGroups} {cs.length}" ++ String.join fl

def schemaStr (S : Option Schema) : String :=
  match S with
  | none => "-"
  | some S => " ".intercalate (S.map showMsgD)

def handlePluginSchema : List String → Option String
  | "TOSCHEMA" :: r => do
    let (files, r) ← pCounted pFile r
    match r with
    | "NAMES" :: r =>
      let (cls, r) ← pCounted pPair r
      let (fld, r) ← pCounted pPair r
      let (mem, _) ← pCounted pTriple r
      let nm := mkNaming cls fld mem
      match compilePackage nm files with
      | none => some "ERR"
      | some classes =>
        let pkg := (files.head?.map (·.package)).getD []
        let env := envOf nm pkg classes
        let fulls := (files.map fun fl =>
          (fullNames (if fl.package.isEmpty then [] else '.' :: fl.package) fl.messages).filter (fun p => !p.2.mapEntry)).flatten
        let mcs := msgClasses classes
        let rec go (l : List (Name × List CField)) (i : Nat) (acc : List String) : List String :=
          match l with
          | [] => acc.reverse
          | (n, cs) :: rest => go rest (i + 1) (showClassD nm env fulls i n cs :: acc)
        let whole := (toSchema nm pkg classes).isSome
        let pyd := schemaStr (toSchema nm pkg (classes.map pydanticClass))
                   == schemaStr ((toSchema nm pkg classes).map fun S => S.map fun d => { d with fields := d.fields.map markOptionalMember })
        some (s!"{b01 whole} {b01 pyd} {mcs.length} " ++ " ".intercalate (go mcs 0 []))
    | _ => none
  | _ => none

end Drv
