import Driver.Json
import BpModel.PyDict
/- line-protocol handlers of `to_pydict` / `from_pydict` (C14, C04); see docs/p26-notes.md.
   A `PVal` is printed / read in the syntax of `showJV` / `parseJV` (Driver/Json.lean): the leaves that are
   Python objects JSON has no type for are `RAWy<hex>` (bytes), `RAWt<us>` (datetime), `RAWd<us>` (timedelta). -/
namespace Drv
open Bp

def handlePyDict (wire : St) : List String → Option String
  -- TOPYDICT sid casing incl <val> : m.to_pydict(casing, include_default_values)
  | "TOPYDICT" :: sid :: cs :: incl :: rest => do
    let S ← wire.schema sid
    let cs ← jCaseOf cs
    let (v, r) ← parseVal S rest
    if !r.isEmpty then none else
    some (showR showJV (toPyDict S cs (incl == "1") v))
  -- FROMPYDICT sid cls <pval> : Cls().from_pydict(d)
  | "FROMPYDICT" :: sid :: cls :: rest => do
    let S ← wire.schema sid
    let cls ← parseNat cls
    let (j, r) ← parseJV rest
    if !r.isEmpty then none else
    some (showMsgR S (fromPyDict S cls j))
  -- PYRT sid casing <val> : Cls().from_pydict(m.to_pydict(casing))
  | "PYRT" :: sid :: cs :: rest => do
    let S ← wire.schema sid
    let cs ← jCaseOf cs
    let (v, r) ← parseVal S rest
    if !r.isEmpty then none else
    let cls := match v with | .msg c _ _ _ _ => c | _ => 0
    some (showMsgR S ((toPyDict S cs false v).bind (fromPyDict S cls)))
  -- PYREADS sid <val> : the instance after m.to_pydict() (raw `is_set` bits shown), and its bytes
  | "PYREADS" :: sid :: rest => do
    let S ← wire.schema sid
    let (v, r) ← parseVal S rest
    if !r.isEmpty then none else
    some (obsVal S (pyReads S v) ++ " | " ++ showR toHex (dumpVal S (pyReads S v)))
  -- WF PYOK sid casing : the schema guard of the pydict round trip
  | "WF" :: "PYOK" :: sid :: cs :: [] => do
    let S ← wire.schema sid
    let cs ← jCaseOf cs
    some (if pyDictOk S cs then "1" else "0")
  | _ => none

end Drv
