import Driver.Wire
import BpModel.Spec
/- handlers for the spec-level decoder commands (C02): SPECPARSE, SPECDEC, SPECLEGAL.
   Stateless: schemas are those defined with `S` (kept by the wire handler). -/
namespace Drv
open Bp

def showRec (r : Spec.WireRec) : String := s!"({r.num} {r.wt} {r.vint} {toHex r.payload})"

def handleSpec (wire : St) : List String → Option String
  | ["SPECPARSE", h] => (parseHex h).map fun bs =>
      match Spec.parse bs with
      | some rs => if rs.isEmpty then "-" else String.intercalate " " (rs.map showRec)
      | none => "NONE"
  | ["SPECDEC", sid, cls, h] => do
    let S ← wire.schema sid
    let cls ← parseNat cls
    let bs ← parseHex h
    match Spec.decodeBytes S cls bs with
    | some m => some (showVal m.toVal)
    | none => some "NONE"
  | ["SPECLEGAL", sid, cls, h] => do
    let S ← wire.schema sid
    let cls ← parseNat cls
    let bs ← parseHex h
    match Spec.parse bs with
    | some rs => some (if Spec.legal S cls rs then "1" else "0")
    | none => some "NONE"
  | _ => none

end Drv
