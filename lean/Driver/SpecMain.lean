import Driver.Spec
/- stand-alone line loop for the C02 spec commands, used through `lake env lean --run`
   until `handleSpec` is dispatched from Driver/Main.lean (a shared file). -/
open Drv

partial def specLoop (h : IO.FS.Stream) (out : IO.FS.Stream) (st : St) : IO Unit := do
  let line ← h.getLine
  if line.isEmpty then return ()
  let line := (line.dropEndWhile (fun c => c == '\n' || c == '\r')).toString
  let toks := (line.splitOn " ").filter (· != "")
  match handleSpec st toks with
  | some r => out.putStrLn r; specLoop h out st
  | none =>
    match handleWire st toks with
    | some (s, r) => out.putStrLn r; specLoop h out s
    | none => out.putStrLn "bad-op"; specLoop h out st

def main : IO Unit := do
  let stdin ← IO.getStdin
  let stdout ← IO.getStdout
  specLoop stdin stdout {}
  stdout.flush
