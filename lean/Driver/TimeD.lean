import Driver.Tok
/- line-protocol handlers of this area; see docs/AGENT_GUIDE.md -/
namespace Drv

structure TimeDSt where
  dummy : Unit := ()

def handleTimeD (st : TimeDSt) (_toks : List String) : Option (TimeDSt × String) :=
  let _ := st
  none

end Drv
