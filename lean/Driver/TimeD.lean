import Driver.Tok
/- line-protocol handlers for the Timestamp / Duration arithmetic (C15) -/
namespace Drv
open Bp

structure TimeDSt where
  dummy : Unit := ()

def handleTimeD (st : TimeDSt) : List String → Option (TimeDSt × String)
  | ["TSSPLIT", us] => (parseInt us).map fun us => (st, s!"{(tsSplit us).1} {(tsSplit us).2}")
  | ["TSJOIN", s, n] => do
    let s ← parseInt s
    let n ← parseInt n
    some (st, toString (tsJoin s n))
  | ["DURSPLIT", us] => (parseInt us).map fun us => (st, s!"{(durSplit us).1} {(durSplit us).2}")
  | ["DURJOIN", s, n] => do
    let s ← parseInt s
    let n ← parseInt n
    some (st, toString (durJoin s n))
  | ["TSFRAC", u] => (parseNat u).map fun u =>
      (st, match tsFrac u with
           | none => "-"
           | some (nd, d) => s!"{nd} {d}")
  | ["DURJSON", us] => (parseInt us).map fun us =>
      let (neg, s, nd, d) := durJson us
      (st, s!"{if neg then 1 else 0} {s} {nd} {d}")
  | ["DURFROMJSON", neg, s, nd, d] => do
    let s ← parseNat s
    let nd ← parseNat nd
    let d ← parseNat d
    some (st, toString (durFromJson (neg == "1") s nd d))
  | _ => none

end Drv
