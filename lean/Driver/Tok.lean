import BpModel.All
/- token helpers and (de)serialisation of model values for the line protocol -/
namespace Drv
open Bp

def hexDigit (c : Char) : Option Nat :=
  if '0' ≤ c ∧ c ≤ '9' then some (c.toNat - '0'.toNat)
  else if 'a' ≤ c ∧ c ≤ 'f' then some (c.toNat - 'a'.toNat + 10)
  else if 'A' ≤ c ∧ c ≤ 'F' then some (c.toNat - 'A'.toNat + 10)
  else none

def parseHex (s : String) : Option Bytes :=
  if s == "-" then some [] else
  let rec go : List Char → List Nat → Option (List Nat)
    | [], acc => some acc.reverse
    | [_], _ => none
    | a :: b :: rest, acc =>
      match hexDigit a, hexDigit b with
      | some x, some y => go rest ((x * 16 + y) :: acc)
      | _, _ => none
  go s.toList []

def hexChar (n : Nat) : Char := if n < 10 then Char.ofNat (48 + n) else Char.ofNat (87 + n)

def toHex (bs : Bytes) : String :=
  if bs.isEmpty then "-" else
  String.ofList (bs.foldr (fun b acc => hexChar (b / 16 % 16) :: hexChar (b % 16) :: acc) [])

def parseInt (s : String) : Option Int := s.toInt?
def parseNat (s : String) : Option Nat := s.toNat?

def ptypeOf (s : String) : Option PType := PType.all.find? (fun t => Gen.typeName t == s)

def optNat (s : String) : Option (Option Nat) := if s == "-" then some none else (parseNat s).map some
def optPType (s : String) : Option (Option PType) := if s == "-" then some none else (ptypeOf s).map some

def kindOf (s : String) : Option MsgKind :=
  if s == "ts" then some .timestamp
  else if s == "dur" then some .duration
  else if s.startsWith "u" then (parseNat (s.drop 1).toString).map MsgKind.user
  else none

def errName : PyErr → String
  | .eof => "eof" | .value => "value" | .unicode => "unicode" | .struct => "struct" | .type => "type"
  | .key => "key" | .attr => "attr" | .overflow => "overflow" | .notImpl => "notImpl" | .assertion => "assertion"

def showR {α} (f : α → String) : R α → String
  | .ok a => f a
  | .error e => "ERR " ++ errName e

/-- F num ty repeated optional group wraps kind mapK mapV mapVKind name -/
def parseFieldD : List String → Option (FieldD × List String)
  | "F" :: num :: ty :: rep :: opt :: grp :: wr :: kd :: mk :: mv :: mvk :: name :: rest => do
    let num ← parseNat num
    let ty ← ptypeOf ty
    let grp ← optNat grp
    let wr ← optPType wr
    let kd ← kindOf kd
    let mk ← ptypeOf mk
    let mv ← ptypeOf mv
    let mvk ← kindOf mvk
    some ({ name := name, num := num, ty := ty, repeated := rep == "1", optional := opt == "1",
            group := grp, wraps := wr, kind := kd, mapK := mk, mapV := mv, mapVKind := mvk }, rest)
  | _ => none

partial def parseFields (n : Nat) (toks : List String) (acc : List FieldD) : Option (List FieldD × List String) :=
  if n == 0 then some (acc.reverse, toks) else
  match parseFieldD toks with
  | some (f, rest) => parseFields (n - 1) rest (f :: acc)
  | none => none

/-- M nfields ngroups F... -/
partial def parseMsgs (n : Nat) (toks : List String) (acc : List MsgD) : Option (Schema × List String) :=
  if n == 0 then some (acc.reverse, toks) else
  match toks with
  | "M" :: nf :: ng :: rest =>
    match parseNat nf, parseNat ng with
    | some nf, some ng =>
      match parseFields nf rest [] with
      | some (fs, rest') => parseMsgs (n - 1) rest' ({ fields := fs, nGroups := ng } :: acc)
      | none => none
    | _, _ => none
  | _ => none

mutual
partial def parseVal (S : Schema) : List String → Option (Val × List String)
  | "P" :: r => some (.ph, r)
  | "N" :: r => some (.none, r)
  | "i" :: x :: r => (parseInt x).map fun v => (.int v, r)
  | "b" :: x :: r => some (.bool (x == "1"), r)
  | "f32" :: x :: r => (parseNat x).map fun v => (.f32 v, r)
  | "f64" :: x :: r => (parseNat x).map fun v => (.f64 v, r)
  | "s" :: x :: r => (parseHex x).map fun v => (.str v, r)
  | "y" :: x :: r => (parseHex x).map fun v => (.byt v, r)
  | "t" :: x :: r => (parseInt x).map fun v => (.ts v, r)
  | "d" :: x :: r => (parseInt x).map fun v => (.dur v, r)
  | "l" :: n :: r => do
    let n ← parseNat n
    let (xs, r') ← parseVals S n r []
    some (.list xs, r')
  | "D" :: n :: r => do
    let n ← parseNat n
    let (xs, r') ← parseVals S (2 * n) r []
    let rec split : List Val → List Val × List Val
      | k :: v :: rest => let (ks, vs) := split rest; (k :: ks, v :: vs)
      | _ => ([], [])
    let (ks, vs) := split xs
    some (.dict ks vs, r')
  -- c <cls> <n> (<idx> <val>)* : constructor call
  | "c" :: cls :: n :: r => do
    let cls ← parseNat cls
    let n ← parseNat n
    let (kw, r') ← parseKw S n r []
    some (construct S cls kw, r')
  -- m <cls> <onWire> <unknown> <ncur> <cur>* <nslots> <val>* : raw instance
  | "m" :: cls :: ow :: unk :: ncur :: r => do
    let cls ← parseNat cls
    let unk ← parseHex unk
    let ncur ← parseNat ncur
    let curToks := r.take ncur
    let cur ← curToks.mapM optNat
    match r.drop ncur with
    | ns :: r2 =>
      let ns ← parseNat ns
      let (xs, r3) ← parseVals S ns r2 []
      some (.msg cls xs (ow == "1") unk cur, r3)
    | [] => none
  | _ => none
partial def parseVals (S : Schema) (n : Nat) (toks : List String) (acc : List Val) : Option (List Val × List String) :=
  if n == 0 then some (acc.reverse, toks) else
  match parseVal S toks with
  | some (v, r) => parseVals S (n - 1) r (v :: acc)
  | none => none
partial def parseKw (S : Schema) (n : Nat) (toks : List String) (acc : List (Nat × Val)) : Option (List (Nat × Val) × List String) :=
  if n == 0 then some (acc.reverse, toks) else
  match toks with
  | i :: r =>
    match parseNat i, parseVal S r with
    | some i, some (v, r') => parseKw S (n - 1) r' ((i, v) :: acc)
    | _, _ => none
  | [] => none
end

def showOptNat : Option Nat → String
  | none => "-"
  | some n => toString n

/-- raw state of a value, in the input syntax -/
partial def showVal : Val → String
  | .ph => "P"
  | .none => "N"
  | .int v => s!"i {v}"
  | .bool b => if b then "b 1" else "b 0"
  | .f32 b => s!"f32 {b}"
  | .f64 b => s!"f64 {b}"
  | .str s => s!"s {toHex s}"
  | .byt s => s!"y {toHex s}"
  | .ts us => s!"t {us}"
  | .dur us => s!"d {us}"
  | .list xs => s!"l {xs.length}" ++ String.join (xs.map fun x => " " ++ showVal x)
  | .dict ks vs => s!"D {ks.length}" ++ String.join ((ks.zip vs).map fun (k, v) => " " ++ showVal k ++ " " ++ showVal v)
  | .msg c sl ow unk cur =>
    s!"m {c} {if ow then 1 else 0} {toHex unk} {cur.length}" ++ String.join (cur.map fun x => " " ++ showOptNat x)
      ++ s!" {sl.length}" ++ String.join (sl.map fun x => " " ++ showVal x)

/-- `betterproto.serialized_on_wire(m)` (after the D46 repair): the flag, or any field holding a
    non-default value (`bool(m)`: content set through nested attribute access / in-place mutation) -/
def sowObs (S : Schema) (c : Nat) (sl : List Val) (ow : Bool) : Bool :=
  ow || !slotsEqFresh S (fieldsOf S c) sl

/-- what the public API shows of a message: per field `is_set` and the attribute read
    (AE = AttributeError, defaults materialised), `serialized_on_wire`, the selected
    member of each group; nested messages likewise.  Unknown fields are not shown
    (they are observed through `bytes`). -/
partial def obsVal (S : Schema) : Val → String
  | .msg c sl ow _ cur =>
    let fs := fieldsOf S c
    let items := (List.range sl.length).map fun i =>
      match fs[i]?, sl[i]? with
      | some f, some v =>
        let setBit := if isSet f v then "1" else "0"
        if hidden f i cur then s!" [{setBit} AE]"
        else
          match v, f.defKind with
          | .ph, .msg _ => s!" [{setBit} fresh]"     -- an unset sub-message: not expanded (recursive types)
          | _, _ => s!" [{setBit} {obsVal S (materialize S f v)}]"
      | _, _ => " [?]"
    s!"m {c} {if sowObs S c sl ow then 1 else 0} {cur.length}" ++ String.join (cur.map fun x => " " ++ showOptNat x)
      ++ s!" {sl.length}" ++ String.join items
  | .list xs => s!"l {xs.length}" ++ String.join (xs.map fun x => " " ++ obsVal S x)
  | .dict ks vs => s!"D {ks.length}" ++ String.join ((ks.zip vs).map fun (k, v) => " " ++ obsVal S k ++ " " ++ obsVal S v)
  | v => showVal v


/-- presence-level observation: like `obsVal` without the raw `is_set` bits, and with a
    sub-message that is not on the wire and equals a fresh instance shown as `fresh`
    (reading an attribute materialises defaults; that must stay invisible here) -/
partial def obsPVal (S : Schema) : Val → String
  | .msg c sl ow _ cur =>
    let fs := fieldsOf S c
    let items := (List.range sl.length).map fun i =>
      match fs[i]?, sl[i]? with
      | some f, some v =>
        if hidden f i cur then " [AE]"
        else
          match materialize S f v with
          | .msg c' sl' ow' u' cur' =>
            if !ow' && !f.repeated && eqDefault S (.msg c') (.msg c' sl' ow' u' cur') && u'.isEmpty
                && (match dumpVal S (.msg c' sl' ow' u' cur') with | .ok [] => true | _ => false) then " [fresh]"
            else s!" [{obsPVal S (.msg c' sl' ow' u' cur')}]"
          | v' => s!" [{obsPVal S v'}]"
      | _, _ => " [?]"
    s!"m {c} {if sowObs S c sl ow then 1 else 0} {cur.length}" ++ String.join (cur.map fun x => " " ++ showOptNat x)
      ++ s!" {sl.length}" ++ String.join items
  | .list xs => s!"l {xs.length}" ++ String.join (xs.map fun x => " " ++ obsPVal S x)
  | .dict ks vs => s!"D {ks.length}" ++ String.join ((ks.zip vs).map fun (k, v) => " " ++ obsPVal S k ++ " " ++ obsPVal S v)
  | v => showVal v

end Drv
