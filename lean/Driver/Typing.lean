import Driver.Tok
/- line-protocol handlers of this area; see docs/AGENT_GUIDE.md -/
namespace Drv

structure TypingSt where
  dummy : Unit := ()

def handleTyping (st : TypingSt) (_toks : List String) : Option (TypingSt × String) :=
  let _ := st
  none

end Drv
