import Driver.Tok
import BpModel.Typing
/- line-protocol handlers of the Typing area (C18).  Every string travels as the hex of
   its ASCII bytes (`-` = empty) because tokens are split on spaces.

   TYPING <direct|root|310> <optional|list|dict|union|iterable|async_iterable|async_iterator> <hex>*  -> hex
   TSITE <compiler> <site> <hexIn> <hexOut>       -> hex   (repaired template)
   TSITEPRE <compiler> <site> <hexIn> <hexOut>    -> hex   (template before the D07 fix)
   TWQ <hex>                                      -> 1 | 0      (wellQuoted)
   TDENOTE <hex>                                  -> shape | none
   TFIELD <compiler> <pydantic 0|1> <field…>      -> hex of get_field_string()
   TFIELDSHAPE <compiler> <pydantic> <field…>     -> shape the model says the annotation denotes
   field… = pyName number fieldType kind(s|r|w) pyType useBuiltins repeated proto3opt group|- wraps|- isMap mapK vkind mapV protoK protoV -/
namespace Drv
open Bp.Typing

structure TypingSt where
  dummy : Unit := ()

def hexStr (s : String) : Option Str := (parseHex s).map fun bs => bs.map Char.ofNat
def strHex (s : Str) : String := toHex (s.map Char.toNat)

def compilerOf : String → Option Compiler
  | "direct" => some .direct
  | "root" => some .root
  | "310" => some .c310
  | _ => none

def siteOf : String → Option Site
  | "stubUnaryParam" => some .stubUnaryParam
  | "stubIterParam" => some .stubIterParam
  | "stubTimeout" => some .stubTimeout
  | "stubDeadline" => some .stubDeadline
  | "stubMetadata" => some .stubMetadata
  | "stubReturnUnary" => some .stubReturnUnary
  | "stubReturnStream" => some .stubReturnStream
  | "baseUnaryParam" => some .baseUnaryParam
  | "baseIterParam" => some .baseIterParam
  | "baseReturnUnary" => some .baseReturnUnary
  | "baseReturnStream" => some .baseReturnStream
  | "rpcStream" => some .rpcStream
  | "mappingReturn" => some .mappingReturn
  | _ => none

partial def showShape : Shape → String
  | .nm n => "nm:" ++ String.ofList n
  | .app1 h a => "app(" ++ String.ofList h ++ "," ++ showShape a ++ ")"
  | .app2 h a b => "app(" ++ String.ofList h ++ "," ++ showShape a ++ "," ++ showShape b ++ ")"
  | .or a b => "or(" ++ showShape a ++ "," ++ showShape b ++ ")"

def showOptShape : Option Shape → String
  | some s => showShape s
  | none => "none"

def optHex (s : String) : Option (Option Str) := if s == "-" then some none else
  -- a present-but-empty value is written `=`
  if s == "=" then some (some []) else (hexStr s).map some

def pyTOf (kind : String) (n : Str) : Option PyT :=
  match kind with
  | "s" => some (.scalar n)
  | "r" => some (.ref n)
  | "w" => some (.wrapped n)
  | _ => none

def parseFieldDesc : List String → Option FieldDesc
  | [pyName, number, fieldType, kind, pyType, ub, rep, opt, grp, wraps, isMap, mapK, vkind, mapV, protoK, protoV] => do
    let pyName ← hexStr pyName
    let number ← parseNat number
    let fieldType ← hexStr fieldType
    let pt ← (hexStr pyType).bind (pyTOf kind)
    let grp ← optHex grp
    let wraps ← optHex wraps
    let mapK ← hexStr mapK
    let mv ← (hexStr mapV).bind (pyTOf vkind)
    let protoK ← hexStr protoK
    let protoV ← hexStr protoV
    some { pyName := pyName, number := number, fieldType := fieldType, pyType := pt, useBuiltins := ub == "1",
           repeated := rep == "1", proto3Optional := opt == "1", group := grp, wraps := wraps, isMap := isMap == "1",
           mapK := mapK, mapV := mv, protoK := protoK, protoV := protoV }
  | _ => none

def handleTyping (st : TypingSt) : List String → Option (TypingSt × String)
  | "TYPING" :: c :: m :: args => do
    let c ← compilerOf c
    let args ← args.mapM hexStr
    let r ← match m, args with
      | "optional", [t] => some (optional c t)
      | "list", [t] => some (list c t)
      | "dict", [k, v] => some (dict c k v)
      | "union", ts => some (union c ts)
      | "iterable", [t] => some (iterable c t)
      | "async_iterable", [t] => some (asyncIterable c t)
      | "async_iterator", [t] => some (asyncIterator c t)
      | _, _ => none
    some (st, strHex r)
  | ["TSITE", c, s, tin, tout] => do
    let c ← compilerOf c
    let s ← siteOf s
    let tin ← hexStr tin
    let tout ← hexStr tout
    some (st, strHex (siteText c tin tout s))
  | ["TSITEPRE", c, s, tin, tout] => do
    let c ← compilerOf c
    let s ← siteOf s
    let tin ← hexStr tin
    let tout ← hexStr tout
    some (st, strHex (siteTextPre c tin tout s))
  | ["TWQ", h] => (hexStr h).map fun s => (st, if wellQuoted s then "1" else "0")
  | ["TDENOTE", h] => (hexStr h).map fun s => (st, showOptShape (denote s))
  | "TFIELD" :: c :: pyd :: rest => do
    let c ← compilerOf c
    let fd ← parseFieldDesc rest
    some (st, strHex (fieldString c (pyd == "1") fd))
  | "TFIELDSHAPE" :: c :: pyd :: rest => do
    let _ ← compilerOf c
    let fd ← parseFieldDesc rest
    some (st, showShape (shapeOf (annotationTy (pyd == "1") fd)))
  | _ => none

end Drv
