import Driver.Tok
/- handlers for the codec commands (C01 C02 C06 C08 C09 C10 C16 C17) -/
namespace Drv
open Bp

structure St where
  schemas : List (String × Schema) := []

def St.schema (st : St) (sid : String) : Option Schema := st.schemas.lookup sid

def showField (pf : PField) : String :=
  s!"({pf.num} {pf.wt} {pf.vint} {toHex pf.payload} {toHex pf.raw})"

def handleWire (st : St) : List String → Option (St × String)
  | "S" :: sid :: n :: rest =>
    match parseNat n with
    | some n =>
      match parseMsgs n rest [] with
      | some (S, []) => some ({ st with schemas := (sid, S) :: st.schemas.filter (·.1 != sid) }, "ok")
      | _ => some (st, "bad-schema")
    | none => some (st, "bad-schema")
  | ["ENCV", x] => (parseInt x).map fun v => (st, showR toHex (dumpVarint v))
  | ["SIZEV", x] => (parseInt x).map fun v => (st, showR toString (sizeVarint v))
  | ["LOADV", h] => (parseHex h).map fun bs => (st, showR (fun (v, k) => s!"{v} {k}") (loadVarint bs))
  | ["DECV", h, pos] => do
    let bs ← parseHex h
    let pos ← parseNat pos
    some (st, showR (fun (v, k) => s!"{v} {k}") (decodeVarint bs pos))
  | ["ZIG", x] => (parseInt x).map fun v => (st, toString (zig v))
  | ["UNZIG", x] => (parseNat x).map fun v => (st, toString (unzig v))
  | ["SIGN", b, x] => do
    let b ← parseNat b
    let x ← parseNat x
    some (st, toString (signRecover b x))
  | ["FIELDS", h] => (parseHex h).map fun bs =>
      (st, showR (fun pfs => String.intercalate " " (pfs.map showField)) (loadFields bs))
  | "DUMP" :: sid :: rest => do
    let S ← st.schema sid
    let (v, r) ← parseVal S rest
    if !r.isEmpty then none else
    some (st, showR toHex (dumpVal S v))
  -- is the value inside the domain of the C01 theorem (`MsgOk`, decided by `msgOkB`: BpProofs/OkComplete.lean)?
  | "MSGOK" :: sid :: rest => do
    let S ← st.schema sid
    let (v, r) ← parseVal S rest
    if !r.isEmpty then none else
    some (st, if msgOkB S v then "1" else "0")
  -- `Message.__eq__` of two values (`msgEq`, BpModel/Eq.lean): EQ <sid> <val> ;; <val>
  | "EQ" :: sid :: rest =>
    match st.schema sid with
    | none => some (st, "ERR no-schema")
    | some S =>
      match parseVal S rest with
      | some (a, ";;" :: rest2) =>
        match parseVal S rest2 with
        | some (b, []) => some (st, if msgEq S a b then "1" else "0")
        | _ => some (st, "ERR bad-second-value")
      | _ => some (st, "ERR bad-first-value")
  -- `m == parse(bytes(m))` and `parse(bytes(m)) == m` on the model: EQRT <sid> <val>
  | "EQRT" :: sid :: rest => do
    let S ← st.schema sid
    let (v, r) ← parseVal S rest
    if !r.isEmpty then none else
    match v, dumpVal S v with
    | .msg c _ _ _ _, .ok bs =>
      (match parse S c bs with
       | .ok m' => some (st, s!"{if msgEq S v m' then 1 else 0} {if msgEq S m' v then 1 else 0}")
       | .error e => some (st, s!"ERR parse {repr e}"))
    | _, _ => some (st, "ERR dump")
  | "LEN" :: sid :: rest => do
    let S ← st.schema sid
    let (v, r) ← parseVal S rest
    if !r.isEmpty then none else
    some (st, showR toString (lenVal S v))
  | "DUMPD" :: sid :: rest => do
    let S ← st.schema sid
    let (v, r) ← parseVal S rest
    if !r.isEmpty then none else
    some (st, showR toHex (dumpDelimited S v))
  | "SHOW" :: sid :: rest => do
    let S ← st.schema sid
    let (v, r) ← parseVal S rest
    if !r.isEmpty then none else
    some (st, showVal v)
  | "OBS" :: sid :: rest => do
    let S ← st.schema sid
    let (v, r) ← parseVal S rest
    if !r.isEmpty then none else
    some (st, obsVal S v)
  | ["PARSE", sid, cls, h] => do
    let S ← st.schema sid
    let cls ← parseNat cls
    let bs ← parseHex h
    some (st, showR (fun v => obsVal S v ++ " | " ++ showR toHex (dumpVal S v)) (parse S cls bs))
  | "PARSEINTO" :: sid :: h :: rest => do
    let S ← st.schema sid
    let bs ← parseHex h
    let (v, r) ← parseVal S rest
    if !r.isEmpty then none else
    some (st, showR (fun v => obsVal S v ++ " | " ++ showR toHex (dumpVal S v)) (parseInto S v bs))
  | ["LOADD", sid, cls, h] => do
    let S ← st.schema sid
    let cls ← parseNat cls
    let bs ← parseHex h
    some (st, showR (fun (v, rest) => obsVal S v ++ " | " ++ showR toHex (dumpVal S v) ++ s!" | {rest.length}")
      (loadDelimited S (fresh S cls) bs))
  | _ => none

end Drv
