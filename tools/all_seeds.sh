#!/bin/sh
# tools/all_seeds.sh [seed…]: regression over every kept seeded change. Works on a scratch worktree of /repo
# (/tmp/rw, removed at the end) through VERIF_REPO, from the stable /verif worktree /work/stable, so that neither
# /repo nor /verif is touched. One line per seed in seeded/REGRESSION.txt: caught / no-failing-input-found / MISSED.
OUT=${OUT:-/verif/seeded/REGRESSION.txt}
RW=${RW:-/tmp/rw}
[ -d $RW ] || git -C /repo worktree add --detach $RW HEAD -q
: > $OUT.tmp
SEEDS="$@"; [ -n "$SEEDS" ] || SEEDS=$(ls -d /verif/seeded/C*-* | xargs -n1 basename)
for s in $SEEDS; do
  D=/verif/seeded/$s; id=${s%%-*}
  git -C $RW checkout -q -- . ; git -C $RW clean -qfd
  if python3 -c "import json,sys; sys.exit(0 if json.load(open('$D/meta.json')).get('obsolete') else 1)" 2>/dev/null; then echo "$s obsolete" >> $OUT.tmp; echo "$s obsolete"; continue; fi
  git -C $RW apply $D/patch.diff || { echo "$s patch-does-not-apply" >> $OUT.tmp; continue; }
  extra=$(python3 -c "import json,sys; print(' '.join(json.load(open('$D/meta.json')).get('also_checks',[])))" 2>/dev/null)
  line="$s"
  for c in $id $extra; do
    r=$(cd ${STABLE:-/work/stable} && VERIF_REPO=$RW VERIF_SEED=${VERIF_SEED:-1} timeout 2400 ./check $c 2>&1 | grep -E "^VIOLATION" | head -1)
    case "$r" in
      *no-failing-input-found) v="no-failing-input-found" ;;
      VIOLATION*) v="caught" ;;
      *) v="MISSED" ;;
    esac
    line="$line $c=$v"
  done
  echo "$line" >> $OUT.tmp; echo "$line"
done
mv $OUT.tmp $OUT
git -C $RW checkout -q -- . ; git -C /repo worktree remove --force $RW
git -C ${STABLE:-/work/stable} checkout -- . 2>/dev/null
