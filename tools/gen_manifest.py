"""Writes MANIFEST.json from harness/manifest_data.py (one entry per claimed property)."""
import json, os, sys
ROOT = os.path.dirname(os.path.dirname(os.path.abspath(__file__)))
sys.path.insert(0, os.path.join(ROOT, "harness"))
import manifest_data as D

ALL = ["C%02d" % i for i in range(1, 21)]
CL = dict(D.CLAIMED)
metadir = os.path.join(ROOT, "harness", "meta")
if os.path.isdir(metadir):
    for fn in sorted(os.listdir(metadir)):
        if fn.endswith(".json"):
            CL[fn[:-5]] = json.load(open(os.path.join(metadir, fn)))
checks = []
for pid in ALL:
    if pid not in CL:
        continue
    e = CL[pid]
    checks.append({
        "property_id": pid,
        "quick_cmd": "./check %s --tier quick" % pid,
        "thorough_cmd": "./check %s --tier thorough" % pid,
        "evidence_file": "evidence/%s.json" % pid,
        "replay_cmd_template": "./check %s --replay {path}" % pid,
        "engine": "lean4+correspondence",
        "level_claimed": {"category": "proof", "text": e["text"], "design_ref": e.get("design_ref", "DESIGN.md §7")},
        "level_note": e["note"],
        "technique": e["technique"],
    })
na = [{"property_id": pid, "reason": D.NOT_CLAIMED.get(pid, "check not built yet in this round (see DESIGN.md §11 build order)")}
      for pid in ALL if pid not in CL]
man = {
    "version": 1,
    "setup_cmd": "cd lean && lake build BpModel BpProofs bpdriver",
    "hooks": {
        "guard": "BETTERPROTO_VERIF",
        "enable": "no source hooks: every observation goes through the public API, a custom asyncio event loop and a PATH shim for ruff (harness side only)",
        "baseline_off_cmd": "cd /repo && /venv/bin/python -m pytest -ra -q -p no:cacheprovider --timeout=900 --continue-on-collection-errors",
        "source_commits": [],
        "add_only": True,
    },
    "engines": [{"name": "lean4+correspondence", "path": "lean/ + harness/",
                 "serves_properties": [c["property_id"] for c in checks],
                 "kind_free_text": "Lean 4 theorems over a hand-written model + regenerated tables; differential correspondence of the model's compiled driver against the implementation; direct oracles on the implementation for replays"}],
    "checks": checks,
    "notes": D.NOTES,
    "not_applicable": na,
}
with open(os.path.join(ROOT, "MANIFEST.json"), "w") as f:
    json.dump(man, f, indent=1)
print("MANIFEST.json: %d checks, %d not claimed" % (len(checks), len(na)))
