#!/bin/sh
# re-run every claimed check (quick, seed 0) on the CLEAN tree so that the committed evidence comes from it
cd "$(dirname "$0")/.."
git -C /repo diff --quiet || { echo "/repo is dirty"; exit 2; }
ids=$(python3 -c "import json; print(' '.join(c['property_id'] for c in json.load(open('MANIFEST.json'))['checks']))")
(cd lean && lake build BpModel BpProofs bpdriver >/dev/null 2>&1)
echo $ids | tr ' ' '\n' | xargs -P 4 -I{} sh -c 'out=$(VERIF_SEED=0 timeout 3000 ./check {} --tier quick 2>&1); echo "rc=$? $(echo "$out" | grep -E "VIOLATION|INFRA|TIMEOUT" | head -2 | tr "\n" " ") $(echo "$out" | tail -1)"'
