#!/usr/bin/env python3
"""tools/seed_meta.py <Cxx-r> <needs> <result> [also_checks…]: write seeded/<Cxx-r>/meta.json"""
import json, sys
sid, needs, result = sys.argv[1:4]
pid, rnd = sid.split("-")
meta = {"property": pid, "needs": needs,
        "ran": "tools/take_seed_wt.sh %s %s %s  (scratch worktree reset, patch.diff re-applied with git apply; pinned suite there = 9 failed, 193 passed, 16 xfailed, 194 errors exactly as on the unchanged tree; demo.py exits 1 with the change and 0 on /repo; ./check through VERIF_REPO from the stable worktree; worktree removed)" % (pid, rnd, pid),
        "result": result,
        "produced_by": "fresh sub-agent (round %s) given only the property text, the one-line triggers of the earlier seeds of that property, and a scratch worktree of /repo" % rnd}
if len(sys.argv) > 4:
    meta["also_checks"] = sys.argv[4:]
json.dump(meta, open("seeded/%s/meta.json" % sid, "w"), indent=1)
