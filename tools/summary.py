#!/usr/bin/env python3
"""tools/summary.py: numbers at a glance (theorems audited per property from the evidence files, Lean line counts,
translators, seeds) — printed as the markdown block of DESIGN.md §13.1a; run after tools/refresh_evidence.sh"""
import glob, json, os, subprocess
R = os.path.dirname(os.path.dirname(os.path.abspath(__file__)))
rows, tot = [], 0
for i in range(1, 21):
    pid = "C%02d" % i
    e = json.load(open(os.path.join(R, "evidence", pid + ".json")))
    c = e["coverage"]
    mods = sorted(os.path.basename(p)[:-5] for p in glob.glob(os.path.join(R, "lean/BpProofs/Props", pid + "*.lean")))
    seeds = len(glob.glob(os.path.join(R, "seeded", pid + "-*")))
    tot += c["discharged"]
    rows.append("| %s | %d / %d | %s | %d | %d |" % (pid, c["discharged"], c["obligations"], ", ".join(mods), c["evaluations"], seeds))
def wc(pat):
    n = 0
    for p in glob.glob(os.path.join(R, pat), recursive=True):
        n += sum(1 for _ in open(p, errors="ignore"))
    return n
print("| property | theorems audited (discharged / stated) | `Props/` modules | quick-tier evaluations (seed 0) | seeded changes |")
print("|---|---|---|---|---|")
print("\n".join(rows))
print()
print("Total: %d property theorems, every one with axioms ⊆ {propext, Classical.choice, Quot.sound}; Lean: model %d lines (`BpModel/`), proofs %d lines (`BpProofs/`, of which generated from the source %d), driver %d; harness %d lines of Python of which %d in %d source translators (`extract_src*.py`); %d seeded changes."
      % (tot, wc("lean/BpModel/**/*.lean"), wc("lean/BpProofs/**/*.lean"), wc("lean/BpProofs/Gen/*.lean"), wc("lean/Driver/**/*.lean"),
         wc("harness/**/*.py"), wc("harness/extract_src*.py"), len(glob.glob(os.path.join(R, "harness/extract_src*.py"))),
         len(glob.glob(os.path.join(R, "seeded/C*-*")))))
