#!/bin/sh
# tools/sweep.sh "<ids>" "<seeds>" [tier] : run checks over several seeds, print one line each
cd "$(dirname "$0")/.."
for id in $1; do for sd in $2; do
  out=$(VERIF_SEED=$sd timeout 3000 ./check $id --tier ${3:-quick} 2>&1); rc=$?
  echo "rc=$rc $(echo "$out" | grep -E "VIOLATION|KNOWN-FINDING|INFRA|TIMEOUT" | head -3 | tr '\n' ' ') $(echo "$out" | tail -1)"
done; done
