#!/bin/sh
# tools/take_seed.sh <Cxx> <suffix> <check ids...>: copy /tmp/mut/<Cxx><suffix>/_seed to seeded/<Cxx>-<suffix>, try it from
# the stable worktree /work/stable (so that in-progress Lean edits in /verif do not interfere), remove the scratch worktree
ID=$1; SUF=$2; shift; shift
W=/tmp/mut/$ID$SUF; [ -d "$W" ] || W=/tmp/mut/$ID
SRC=$W/_seed
DST=/verif/seeded/$ID-$SUF
mkdir -p $DST && cp $SRC/patch.diff $SRC/demo.py $DST/ && cp $SRC/notes.md $DST/ 2>/dev/null
cd /repo || exit 2
git diff --quiet || { echo "/repo is dirty"; exit 2; }
git apply "$DST/patch.diff" || { echo "patch does not apply"; exit 2; }
echo "--- pinned tests:"; /venv/bin/python -m pytest -q -p no:cacheprovider --timeout=900 --continue-on-collection-errors 2>&1 | tail -1
echo "--- demo (changed):"; (cd /tmp && timeout 300 /venv/bin/python "$DST/demo.py" >/tmp/demo.out 2>&1; echo "demo exit=$?"; tail -2 /tmp/demo.out)
for id in "$@"; do echo "--- check $id:"; (cd /work/stable && timeout 2400 ./check $id 2>&1 | grep -E "VIOLATION|^C[0-9]+ |INFRA|TIMEOUT|KNOWN" | head -6); done
git -C /repo checkout -- . ; git -C /repo status --short | head -3
git -C /work/stable checkout -- . 2>/dev/null
git -C /repo worktree remove --force $W
