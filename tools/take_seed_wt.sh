#!/bin/sh
# tools/take_seed_wt.sh <Cxx> <suffix> <check ids...>: copy /tmp/mut/<Cxx>-<suffix>/_seed to seeded/<Cxx>-<suffix>, reset
# that scratch worktree, re-apply patch.diff on it (so the patch is known to apply to a clean checkout), run the pinned
# suite and the demonstration there (changed, then unchanged = /repo), run the named checks against it through
# VERIF_REPO (neither /repo nor the evidence directory is touched), and remove the worktree.
ID=$1; SUF=$2; shift; shift
V=${VERIF_DIR:-/verif}   # where the checks run from (e.g. the stable worktree /work/stable while /verif is being edited)
W=${SEED_ROOT:-/tmp/mut}/$ID-$SUF
SRC=$W/_seed
DST=/verif/seeded/$ID-$SUF
[ -f "$SRC/patch.diff" ] || { echo "no $SRC/patch.diff"; exit 2; }
mkdir -p $DST && cp $SRC/patch.diff $SRC/demo.py $DST/ && cp $SRC/notes.md $DST/ 2>/dev/null
git -C $W checkout -q -- . ; git -C $W clean -qfd -e _seed
git -C $W apply "$DST/patch.diff" || { echo "patch does not apply"; exit 2; }
echo "--- pinned tests (changed):"; (cd $W && PYTHONPATH=$W/src /venv/bin/python -m pytest -q -p no:cacheprovider --timeout=900 --continue-on-collection-errors 2>&1 | tail -1)
echo "--- demo (changed):"; (cd /tmp && PYTHONPATH=$W/src timeout 300 /venv/bin/python "$DST/demo.py" >/tmp/demo.out 2>&1; echo "demo exit=$?"; tail -2 /tmp/demo.out)
echo "--- demo (unchanged):"; (cd /tmp && PYTHONPATH=/repo/src timeout 300 /venv/bin/python "$DST/demo.py" >/tmp/demo.out 2>&1; echo "demo exit=$?"; tail -1 /tmp/demo.out)
cp -r $V/evidence /tmp/evidence.keep.$$
for id in "$@"; do echo "--- check $id:"; (cd $V && VERIF_REPO=$W VERIF_SEED=${VERIF_SEED:-0} timeout 2400 ./check $id 2>&1 | grep -E "VIOLATION|^C[0-9]+ |INFRA|TIMEOUT" | head -6); done
rm -rf $V/evidence && mv /tmp/evidence.keep.$$ $V/evidence
# the Gen tables may have been regenerated from the changed tree: bring them back to /repo's
(cd $V && /venv/bin/python harness/extract.py >/dev/null 2>&1)
[ -n "$KEEP_WT" ] || git -C /repo worktree remove --force $W
