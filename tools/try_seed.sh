#!/bin/sh
# tools/try_seed.sh <seed dir containing patch.diff> <check ids...> : apply a seeded change to /repo, run checks, undo
D=$1; shift
cd /repo || exit 2
git diff --quiet || { echo "/repo is dirty"; exit 2; }
git apply "$D/patch.diff" || { echo "patch does not apply"; exit 2; }
echo "--- pinned tests:"; /venv/bin/python -m pytest -q -p no:cacheprovider --timeout=900 --continue-on-collection-errors 2>&1 | tail -1
if [ -f "$D/demo.py" ]; then echo "--- demo (changed):"; (cd /tmp && timeout 300 /venv/bin/python "$D/demo.py" 2>&1 | tail -3; echo "demo exit=$?"); fi
for id in "$@"; do echo "--- check $id:"; (cd /verif && timeout 2400 ./check $id 2>&1 | grep -E "VIOLATION|^C[0-9]+ |INFRA|TIMEOUT" | head -6); done
git -C /repo checkout -- . ; git -C /repo status --short | head -3
git -C /verif checkout -- evidence 2>/dev/null
